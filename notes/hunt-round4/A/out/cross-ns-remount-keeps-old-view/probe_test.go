package vault

import (
	"context"
	"strings"
	"testing"
	"time"

	"github.com/openbao/openbao/sdk/v2/logical"
	logicalSsh "github.com/openbao/openbao/v2/internal/builtin/logical/ssh"
	"github.com/openbao/openbao/v2/internal/helper/namespace"
)

// sys/remount of a mount from namespace ns1 into namespace ns2 moves the
// mount's storage and swaps the ROUTE ENTRY's storage view, but the running
// backend instance keeps the view it was given at setup (BackendConfig.
// StorageView: namespaces/<ns1>/logical/<uuid>/ on ns1's barrier). Builtin
// backends that keep that view (ssh: b.view, pki: b.storage, database: the
// rotation ticker) go on reading and writing ns1's storage although the mount
// now lives in ns2.
func TestHunt_CrossNamespaceRemountKeepsOldStorageView(t *testing.T) {
	c, _, root := TestCoreUnsealedWithConfig(t, &CoreConfig{
		LogicalBackends: map[string]logical.Factory{"ssh": logicalSsh.Factory},
	})
	ns1 := &namespace.Namespace{Path: "ns1/"}
	ns2 := &namespace.Namespace{Path: "ns2/"}
	TestCoreCreateNamespaces(t, c, ns1, ns2)
	rootCtx := namespace.RootContext(context.Background())

	do := func(ns *namespace.Namespace, op logical.Operation, path string, data map[string]any) (*logical.Response, error) {
		req := logical.TestRequest(t, op, path)
		req.ClientToken = root
		req.Data = data
		req.Connection = &logical.Connection{RemoteAddr: "127.0.0.1"}
		return c.HandleRequest(namespace.ContextWithNamespace(context.Background(), ns), req)
	}
	must := func(resp *logical.Response, err error) *logical.Response {
		t.Helper()
		if err != nil || (resp != nil && resp.IsError()) {
			t.Fatalf("request failed: %v %v", resp, err)
		}
		return resp
	}

	must(do(ns1, logical.UpdateOperation, "sys/mounts/ssh", map[string]any{"type": "ssh"}))
	must(do(ns1, logical.UpdateOperation, "ssh/roles/r", map[string]any{"key_type": "otp", "default_user": "u", "cidr_list": "0.0.0.0/0"}))
	me := c.router.MatchingMountEntry(namespace.ContextWithNamespace(rootCtx, ns1), "ssh/")
	if me == nil {
		t.Fatal("no mount entry")
	}
	oldPrefix := NamespaceStoragePathPrefix(ns1) + backendBarrierPrefix + me.UUID + "/"
	newPrefix := NamespaceStoragePathPrefix(ns2) + backendBarrierPrefix + me.UUID + "/"

	// move the mount to the other namespace
	resp := must(do(namespace.RootNamespace, logical.UpdateOperation, "sys/remount", map[string]any{"from": "ns1/ssh", "to": "ns2/ssh"}))
	id := resp.Data["migration_id"].(string)
	deadline := time.Now().Add(20 * time.Second)
	for {
		st := c.readMigrationStatus(id)
		if st != nil && st.MigrationStatus == MigrationSuccessStatus.String() {
			break
		}
		if time.Now().After(deadline) {
			t.Fatalf("remount did not finish: %+v", st)
		}
		time.Sleep(50 * time.Millisecond)
	}

	left, _ := c.barrier.List(rootCtx, oldPrefix)
	if len(left) != 0 {
		t.Fatalf("storage not moved: %v", left)
	}

	// use the mount in its new namespace: issuing an OTP needs the mount's salt
	must(do(ns2, logical.UpdateOperation, "ssh/creds/r", map[string]any{"ip": "1.2.3.4"}))

	inOld, _ := c.barrier.List(rootCtx, oldPrefix)
	inNew, _ := c.barrier.List(rootCtx, newPrefix)
	t.Logf("after the request in ns2: keys under ns1's old prefix %v; keys under ns2's prefix %v", inOld, inNew)
	if len(inOld) != 0 {
		t.Errorf("DEFECT: the mount now living in ns2 wrote %v into namespace ns1's storage (%s)", inOld, strings.TrimSuffix(oldPrefix, "/"))
	}
}
