package vault

import (
	"bytes"
	"context"
	"encoding/hex"
	"testing"

	"github.com/openbao/openbao/sdk/v2/logical"
	"github.com/openbao/openbao/v2/internal/helper/namespace"
	"github.com/openbao/openbao/v2/internal/helper/pgpkeys"
)

func huntNsReq(t *testing.T, c *Core, ns *namespace.Namespace, token string, op logical.Operation, path string, data map[string]any) (*logical.Response, error) {
	t.Helper()
	req := logical.TestRequest(t, op, path)
	req.ClientToken = token
	req.Data = data
	return c.HandleRequest(namespace.ContextWithNamespace(context.Background(), ns), req)
}

func huntRotateWithBackup(t *testing.T, c *Core, ns *namespace.Namespace, token string, keys [][]byte) string {
	t.Helper()
	resp, err := huntNsReq(t, c, ns, token, logical.UpdateOperation, "sys/rotate/root/init", map[string]any{
		"secret_shares": 1, "secret_threshold": 1, "pgp_keys": []string{pgpkeys.TestPubKey1}, "backup": true,
	})
	if err != nil || resp == nil || resp.IsError() {
		t.Fatalf("init in %q: %v %v", ns.Path, resp, err)
	}
	nonce := resp.Data["nonce"].(string)
	for _, k := range keys {
		resp, err = huntNsReq(t, c, ns, token, logical.UpdateOperation, "sys/rotate/root/update", map[string]any{"key": hex.EncodeToString(k), "nonce": nonce})
		if err != nil || (resp != nil && resp.IsError()) {
			t.Fatalf("update in %q: %v %v", ns.Path, resp, err)
		}
		if resp != nil && resp.Data["complete"] == true {
			return nonce
		}
	}
	t.Fatalf("rotation in %q did not complete", ns.Path)
	return ""
}

// A root key rotation with pgp_keys+backup=true inside a separately sealed
// namespace stores (and sys/rotate/root/backup reads / deletes) its backup
// through the namespace's barrier under the BARE key core/unseal-keys-backup,
// i.e. the root namespace's record, not namespaces/<uuid>/core/...
func TestHunt_NamespaceRotationBackupClobbersRootBackup(t *testing.T) {
	c, rootKeys, root := TestCoreUnsealed(t)
	ctx := context.Background()

	// root namespace: rotation with backup
	rootNonce := huntRotateWithBackup(t, c, namespace.RootNamespace, root, rootKeys)
	resp, err := huntNsReq(t, c, namespace.RootNamespace, root, logical.ReadOperation, "sys/rotate/root/backup", nil)
	if err != nil || resp == nil || resp.IsError() {
		t.Fatalf("root backup read: %v %v", resp, err)
	}
	if resp.Data["nonce"] != rootNonce {
		t.Fatalf("unexpected root backup nonce")
	}
	before, err := c.physical.Get(ctx, coreBarrierUnsealKeysBackupPath)
	if err != nil || before == nil {
		t.Fatalf("root backup record missing: %v", err)
	}

	// separately sealed namespace: rotation with backup
	ns := &namespace.Namespace{Path: "ns1/"}
	nsKeys := TestCoreCreateUnsealedNamespaces(t, c, ns)
	huntRotateWithBackup(t, c, ns, root, nsKeys["ns1/"])

	own, _ := c.physical.Get(ctx, NamespaceStoragePathPrefix(ns)+coreBarrierUnsealKeysBackupPath)
	after, _ := c.physical.Get(ctx, coreBarrierUnsealKeysBackupPath)
	t.Logf("record under the namespace's own prefix present: %v; root record changed: %v", own != nil, after == nil || !bytes.Equal(before.Value, after.Value))

	resp, err = huntNsReq(t, c, namespace.RootNamespace, root, logical.ReadOperation, "sys/rotate/root/backup", nil)
	if err != nil || resp == nil || resp.IsError() || resp.Data["nonce"] != rootNonce {
		t.Errorf("DEFECT: the root namespace's unseal key backup is gone after a rotation inside namespace ns1: resp=%v err=%v", resp, err)
	}

	// and the namespace's DELETE removes the root namespace's record
	if _, err := huntNsReq(t, c, ns, root, logical.DeleteOperation, "sys/rotate/root/backup", nil); err != nil {
		t.Fatal(err)
	}
	if e, _ := c.physical.Get(ctx, coreBarrierUnsealKeysBackupPath); e == nil {
		t.Errorf("DEFECT: DELETE ns1/sys/rotate/root/backup deleted the root namespace's physical record core/unseal-keys-backup")
	}
}
