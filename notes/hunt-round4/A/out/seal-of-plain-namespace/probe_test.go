package vault

import (
	"context"
	"testing"

	"github.com/openbao/openbao/sdk/v2/logical"
	"github.com/openbao/openbao/v2/internal/helper/namespace"
)

// sys/namespaces/<name>/seal on an ORDINARY namespace (one that was created
// without a seal config and therefore has no barrier, no seal and no unseal
// keys of its own).
func TestHunt_SealOfPlainNamespace(t *testing.T) {
	c, keys, root := TestCoreUnsealed(t)
	ns := &namespace.Namespace{Path: "plain/"}
	TestCoreCreateNamespaces(t, c, ns)
	child := &namespace.Namespace{Path: "plain/child/"}
	TestCoreCreateNamespaces(t, c, child)
	nsCtx := namespace.ContextWithNamespace(context.Background(), ns)
	rootCtx := namespace.RootContext(context.Background())

	do := func(ctx context.Context, op logical.Operation, path string, data map[string]any) (*logical.Response, error) {
		req := logical.TestRequest(t, op, path)
		req.ClientToken = root
		req.Data = data
		return c.HandleRequest(ctx, req)
	}

	if resp, err := do(nsCtx, logical.UpdateOperation, "sys/mounts/kv", map[string]any{"type": "kv"}); err != nil || (resp != nil && resp.IsError()) {
		t.Fatalf("mount: %v %v", resp, err)
	}
	if resp, err := do(nsCtx, logical.UpdateOperation, "kv/foo", map[string]any{"v": "1"}); err != nil || (resp != nil && resp.IsError()) {
		t.Fatalf("write: %v %v", resp, err)
	}

	resp, err := do(rootCtx, logical.UpdateOperation, "sys/namespaces/plain/seal", nil)
	t.Logf("seal of a plain namespace: resp=%v err=%v", resp, err)
	if err == nil && (resp == nil || !resp.IsError()) {
		t.Errorf("DEFECT?: sealing a namespace that has no seal was accepted")
	}

	resp, err = do(nsCtx, logical.ReadOperation, "kv/foo", nil)
	if err != nil || resp == nil || resp.IsError() {
		t.Errorf("DEFECT: data of the plain namespace unreachable after the seal call: resp=%v err=%v", resp, err)
	}
	resp, err = do(rootCtx, logical.UpdateOperation, "sys/namespaces/plain/unseal", map[string]any{"key": "00"})
	t.Logf("unseal: resp=%v err=%v", resp, err)
	resp, err = do(nsCtx, logical.ReadOperation, "kv/foo", nil)
	if err != nil || resp == nil || resp.IsError() {
		t.Errorf("DEFECT: still unreachable after the unseal call: resp=%v err=%v", resp, err)
	}
	if n, _ := c.namespaceStore.GetNamespaceByPath(rootCtx, "plain/child/"); n == nil {
		t.Errorf("DEFECT: child namespace plain/child/ vanished from the namespace store")
	}
	n, _ := c.namespaceStore.GetNamespaceByPath(rootCtx, "plain/")
	t.Logf("plain/: NamespaceSealed=%v (no barrier of its own, so nothing can ever unseal it)", n != nil && c.NamespaceSealed(n))
	if e, _ := c.barrier.Get(rootCtx, "core/namespaces/"+n.UUID); e != nil {
		t.Logf("stored namespace entry: %s", string(e.Value))
	}

	// only a full seal/unseal (restart) of the server brings the namespace back
	if err := c.Seal(root); err != nil {
		t.Fatal(err)
	}
	for _, k := range keys {
		if _, err := c.Unseal(TestKeyCopy(k)); err != nil {
			t.Fatal(err)
		}
	}
	resp, err = do(nsCtx, logical.ReadOperation, "kv/foo", nil)
	t.Logf("after a full seal+unseal of the server: resp=%v err=%v", resp, err)
}
