package vault

import (
	"context"
	"testing"

	"github.com/openbao/openbao/sdk/v2/logical"
	"github.com/openbao/openbao/v2/internal/helper/namespace"
)

// A root-namespace token with a caller-chosen id has no CubbyholeID; its
// cubbyhole key is derived from the token id. When it uses the cubbyhole of a
// CHILD namespace, the data is stored in that namespace's cubbyhole mount, but
// revocation only clears the cubbyhole of the token's own (root) namespace.
func TestHunt_CustomIDTokenCubbyholeInChildNamespaceSurvivesRevocation(t *testing.T) {
	c, _, root := TestCoreUnsealed(t)
	ns := &namespace.Namespace{Path: "ns1/"}
	TestCoreCreateNamespaces(t, c, ns)
	rootCtx := namespace.RootContext(context.Background())

	do := func(token string, op logical.Operation, path string, data map[string]any) (*logical.Response, error) {
		req := logical.TestRequest(t, op, path)
		req.ClientToken = token
		req.Data = data
		return c.HandleRequest(rootCtx, req)
	}
	must := func(resp *logical.Response, err error) *logical.Response {
		t.Helper()
		if err != nil || (resp != nil && resp.IsError()) {
			t.Fatalf("request failed: %v %v", resp, err)
		}
		return resp
	}
	must(do(root, logical.UpdateOperation, "sys/policies/acl/p", map[string]any{"policy": `path "ns1/cubbyhole/*" { capabilities = ["create","update","read","list","delete"] }`}))

	mk := func() string {
		resp := must(do(root, logical.UpdateOperation, "auth/token/create", map[string]any{"id": "build-agent-token", "policies": []string{"p"}, "ttl": "1h"}))
		return resp.Auth.ClientToken
	}
	tok1 := mk()
	must(do(tok1, logical.UpdateOperation, "ns1/cubbyhole/secret", map[string]any{"v": "owned-by-first-token"}))
	must(do(tok1, logical.UpdateOperation, "cubbyhole/own", map[string]any{"v": "in-root-namespace"}))
	must(do(root, logical.UpdateOperation, "auth/token/revoke", map[string]any{"token": tok1}))

	tok2 := mk() // a NEW token (new accessor, new creation time) that happens to get the same id
	// control: the cubbyhole of the token's own namespace was destroyed with the token
	if resp, err := do(tok2, logical.ReadOperation, "cubbyhole/own", nil); err != nil || (resp != nil && resp.Data != nil) {
		t.Fatalf("control failed: own-namespace cubbyhole not cleared: %v %v", resp, err)
	}
	resp, err := do(tok2, logical.ReadOperation, "ns1/cubbyhole/secret", nil)
	if err != nil {
		t.Fatal(err)
	}
	if resp != nil && resp.Data != nil && resp.Data["v"] != nil {
		t.Fatalf("DEFECT: cubbyhole data written by a revoked token is readable with a different, later token: %v", resp.Data)
	}
}
