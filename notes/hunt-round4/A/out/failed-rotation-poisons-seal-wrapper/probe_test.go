package vault

import (
	"context"
	"encoding/hex"
	"errors"
	"sync"
	"testing"

	log "github.com/hashicorp/go-hclog"
	"github.com/openbao/openbao/sdk/v2/helper/logging"
	"github.com/openbao/openbao/sdk/v2/logical"
	"github.com/openbao/openbao/sdk/v2/physical"
	physInmem "github.com/openbao/openbao/sdk/v2/physical/inmem"
	"github.com/openbao/openbao/v2/internal/helper/namespace"
)

// huntFlakyPhys fails the next failN Puts of failKey with a transient error.
type huntFlakyPhys struct {
	physical.Backend
	mu      sync.Mutex
	failKey string
	failN   int
}

func (f *huntFlakyPhys) Put(ctx context.Context, e *physical.Entry) error {
	f.mu.Lock()
	if f.failN > 0 && e.Key == f.failKey {
		f.failN--
		f.mu.Unlock()
		return errors.New("injected transient storage error")
	}
	f.mu.Unlock()
	return f.Backend.Put(ctx, e)
}

func (f *huntFlakyPhys) arm(key string, n int) {
	f.mu.Lock()
	f.failKey, f.failN = key, n
	f.mu.Unlock()
}

func huntSys(t *testing.T, c *Core, token string, op logical.Operation, path string, data map[string]any) (*logical.Response, error) {
	t.Helper()
	req := logical.TestRequest(t, op, path)
	req.ClientToken = token
	req.Data = data
	return c.HandleRequest(namespace.RootContext(context.Background()), req)
}

// A root-key rotation (sys/rotate/root/update) whose FIRST storage write fails
// returns an error to the operator: nothing was written, the old unseal shares
// stay the valid ones. But performRootRotation already replaced the key inside
// the live seal's Shamir wrapper by the never-returned new seal key. The next
// share-less root key rotation (sys/rotate/root) then seal-wraps the new root
// key under that orphan key: after the next seal nobody can unseal any more.
func TestHunt_FailedRootRotationPoisonsSealWrapper(t *testing.T) {
	huntFailedRotationThenRotateRoot(t, 1)
}

// Control: the same sequence without the injected write error (the rotation
// completes, the operator gets the new share) passes.
func TestHunt_FailedRootRotationPoisonsSealWrapper_Control(t *testing.T) {
	huntFailedRotationThenRotateRoot(t, 0)
}

func huntFailedRotationThenRotateRoot(t *testing.T, failures int) {
	logger := logging.NewVaultLogger(log.Error)
	inm, err := physInmem.NewInmem(nil, logger)
	if err != nil {
		t.Fatal(err)
	}
	fl := &huntFlakyPhys{Backend: inm}
	core := TestCoreWithSealAndUI(t, &CoreConfig{Physical: fl})
	core, keys, root := testCoreUnsealed(t, core)

	// some data written before
	if _, err := huntSys(t, core, root, logical.UpdateOperation, "secret/before", map[string]any{"v": "1"}); err != nil {
		t.Fatal(err)
	}

	// 1. operator starts a rotation of the unseal key shares
	resp, err := huntSys(t, core, root, logical.UpdateOperation, "sys/rotate/root/init", map[string]any{"secret_shares": 1, "secret_threshold": 1})
	if err != nil || resp == nil || resp.IsError() {
		t.Fatalf("init: %v %v", resp, err)
	}
	nonce := resp.Data["nonce"].(string)

	// the first write of the rotation (stored keys) fails once
	fl.arm(StoredBarrierKeysPath, failures)
	var lastErr error
	for _, k := range keys {
		resp, lastErr = huntSys(t, core, root, logical.UpdateOperation, "sys/rotate/root/update", map[string]any{"key": hex.EncodeToString(k), "nonce": nonce})
	}
	if failures > 0 {
		if lastErr == nil && (resp == nil || !resp.IsError()) {
			t.Fatalf("expected the rotation to fail with the injected error, got %v", resp)
		}
		t.Logf("rotation failed as injected: %v", lastErr)
		// operator gives up on the rotation; the old shares stay the valid ones
		if _, err := huntSys(t, core, root, logical.DeleteOperation, "sys/rotate/root/init", nil); err != nil {
			t.Fatal(err)
		}
	} else {
		if lastErr != nil || resp == nil || resp.IsError() || resp.Data["complete"] != true {
			t.Fatalf("control: rotation did not complete: %v %v", resp, lastErr)
		}
		// the operator now holds the single new share
		nk, err := hex.DecodeString(resp.Data["keys"].([]string)[0])
		if err != nil {
			t.Fatal(err)
		}
		keys = [][]byte{nk}
	}

	// sanity: at this point storage is untouched; old shares would still work.
	// 2. later: a share-less root key rotation, which succeeds
	resp, err = huntSys(t, core, root, logical.UpdateOperation, "sys/rotate/root", nil)
	if err != nil || (resp != nil && resp.IsError()) {
		t.Fatalf("sys/rotate/root: %v %v", resp, err)
	}

	// 3. seal, and unseal with the only shares the operator ever received
	if err := core.Seal(root); err != nil {
		t.Fatal(err)
	}
	var unsealed bool
	for _, k := range keys {
		unsealed, err = core.Unseal(TestKeyCopy(k))
		if err != nil {
			break
		}
	}
	if err != nil || !unsealed {
		t.Fatalf("DEFECT: instance cannot be unsealed with the valid unseal shares after a failed rotation + sys/rotate/root: unsealed=%v err=%v", unsealed, err)
	}
}
