package vault

import (
	"bytes"
	"context"
	"testing"
	"time"

	"github.com/openbao/openbao/sdk/v2/logical"
	"github.com/openbao/openbao/v2/internal/helper/namespace"
)

// A (read-enabled) standby receives the root key of a separately sealed
// namespace from the active node and unseals its own copy of the namespace's
// barrier. Nothing ever refreshes that keyring afterwards: performKeyUpgrades
// (CheckUpgrade walk, ReloadRootKey, ReloadKeyring) runs for the ROOT barrier
// only, and the invalidation of namespaces/<uuid>/core/keyring|root-key is
// ignored (isCoreKeyPath). After the active node rotated the namespace's root
// key, the standby that takes over keeps the OLD root key; its next keyring
// persist (a plain sys/rotate in the namespace) re-encrypts the stored keyring
// under that old key, while the stored root key (barrier-unseal-keys) is the
// new one: after the next seal the namespace cannot be unsealed any more.
func TestHunt_NamespaceKeyringStaleOnStandbyTakeover(t *testing.T) {
	huntNsStandbyTakeover(t, true)
}

// Control: the same sequence without the namespace root key rotation passes.
func TestHunt_NamespaceKeyringStaleOnStandbyTakeover_Control(t *testing.T) {
	huntNsStandbyTakeover(t, false)
}

func huntNsStandbyTakeover(t *testing.T, rotateRootKey bool) {
	cluster := NewTestCluster(t, &CoreConfig{}, &TestClusterOptions{NumCores: 2})
	cluster.Start()
	defer cluster.Cleanup()

	active := cluster.Cores[0].Core
	standby := cluster.Cores[1].Core
	TestWaitActive(t, active)
	rootToken := cluster.RootToken

	ns := &namespace.Namespace{Path: "ns1/"}
	nsKeys := TestCoreCreateUnsealedNamespaces(t, active, ns)["ns1/"]
	nsCtx := namespace.ContextWithNamespace(context.Background(), ns)

	nsReq := func(c *Core, op logical.Operation, path string, data map[string]any) (*logical.Response, error) {
		req := logical.TestRequest(t, op, path)
		req.ClientToken = rootToken
		req.Data = data
		return c.HandleRequest(nsCtx, req)
	}

	// data inside the namespace
	if resp, err := nsReq(active, logical.UpdateOperation, "sys/policies/acl/canary", map[string]any{"policy": `path "x" { capabilities = ["read"] }`}); err != nil || (resp != nil && resp.IsError()) {
		t.Fatalf("write policy: %v %v", resp, err)
	}

	// wait until the standby got the namespace's root key from the active node
	deadline := time.Now().Add(60 * time.Second)
	for {
		b := standby.sealManager.NamespaceBarrier(ns.Path)
		if b != nil && !b.Sealed() {
			break
		}
		if time.Now().After(deadline) {
			t.Skipf("standby never received the namespace key (barrier present: %v)", b != nil)
		}
		time.Sleep(100 * time.Millisecond)
	}
	t.Log("standby has unsealed its copy of the namespace barrier")

	// active: share-less root key rotation of the namespace (sys/rotate/root in ns1)
	if rotateRootKey {
		if resp, err := nsReq(active, logical.UpdateOperation, "sys/rotate/root", nil); err != nil || (resp != nil && resp.IsError()) {
			t.Fatalf("ns1/sys/rotate/root: %v %v", resp, err)
		}
	}
	time.Sleep(2 * time.Second) // let invalidations reach the standby

	akr, err := active.sealManager.NamespaceBarrier(ns.Path).Keyring()
	if err != nil {
		t.Fatal(err)
	}
	skr, err := standby.sealManager.NamespaceBarrier(ns.Path).Keyring()
	if err != nil {
		t.Fatal(err)
	}
	stale := !bytes.Equal(akr.RootKey(), skr.RootKey())
	t.Logf("standby's namespace keyring has the active node's root key: %v", !stale)

	// fail over
	if err := active.StepDown(context.Background(), &logical.Request{Operation: logical.UpdateOperation, Path: "sys/step-down", ClientToken: rootToken}); err != nil {
		t.Fatal(err)
	}
	TestWaitActive(t, standby)
	newActive := standby

	// wait for ns1 to be usable on the new active node
	deadline = time.Now().Add(30 * time.Second)
	for {
		resp, err := nsReq(newActive, logical.ReadOperation, "sys/policies/acl/canary", nil)
		if err == nil && resp != nil && !resp.IsError() {
			break
		}
		if time.Now().After(deadline) {
			t.Fatalf("namespace not readable on the new active node: %v %v", resp, err)
		}
		time.Sleep(200 * time.Millisecond)
	}
	nkr, err := newActive.sealManager.NamespaceBarrier(ns.Path).Keyring()
	if err != nil {
		t.Fatal(err)
	}
	if !bytes.Equal(akr.RootKey(), nkr.RootKey()) {
		t.Errorf("DEFECT: the node that took over holds a namespace keyring with the OLD root key (differs from the keyring of the former active node)")
	}

	// an ordinary encryption key rotation in the namespace on the new active node
	if resp, err := nsReq(newActive, logical.UpdateOperation, "sys/rotate", nil); err != nil || (resp != nil && resp.IsError()) {
		t.Fatalf("ns1/sys/rotate: %v %v", resp, err)
	}

	// seal the namespace and unseal it with its (never changed) unseal shares
	if err := newActive.namespaceStore.SealNamespace(namespace.RootContext(context.Background()), ns.Path); err != nil {
		t.Fatal(err)
	}
	var unsealed bool
	for _, k := range nsKeys {
		unsealed, err = TestNamespaceUnseal(newActive, ns, k)
		if err != nil || unsealed {
			break
		}
	}
	if err != nil || !unsealed {
		t.Fatalf("DEFECT: namespace ns1 cannot be unsealed with its valid unseal shares any more: unsealed=%v err=%v", unsealed, err)
	}
}
