package vault

import (
	"context"
	"github.com/openbao/openbao/v2/internal/audit"
	"github.com/openbao/openbao/v2/internal/vault/routing"
	"testing"

	"github.com/openbao/openbao/sdk/v2/logical"
	physInmem "github.com/openbao/openbao/sdk/v2/physical/inmem"
	"github.com/openbao/openbao/v2/internal/helper/namespace"
	"github.com/openbao/openbao/v2/internal/helper/testhelpers/corehelpers"
)

// C11: in non-raw mode audit entries never contain the plaintext of values
// that are configured to be HMAC'd (here: an audited request header with
// hmac=true).
//
// AuditedHeadersConfig.add / remove change the in-memory map before the
// storage Put; when the Put fails the API call fails, but the change stays in
// effect: a header whose accepted and persisted configuration is hmac=true is
// written in the clear from then on (until the node is restarted).
func TestHunt_C11_AuditedHeaders_FailedWriteTakesEffect(t *testing.T) {
	inm, err := physInmem.NewInmem(nil, corehelpers.NewTestLogger(t))
	if err != nil {
		t.Fatal(err)
	}
	c, _, root := TestCoreUnsealedWithConfig(t, &CoreConfig{Physical: inm})
	noop := huntEnableNoopFW(t, c, "noop")
	rootCtx := namespace.RootContext(t.Context())

	setHeader := func(hmac bool) (*logical.Response, error) {
		req := logical.TestRequest(t, logical.UpdateOperation, "sys/config/auditing/request-headers/X-Api-Key")
		req.ClientToken = root
		req.Data["hmac"] = hmac
		return c.HandleRequest(rootCtx, req)
	}
	send := func() []string {
		req := logical.TestRequest(t, logical.ReadOperation, "sys/mounts")
		req.ClientToken = root
		req.Headers = map[string][]string{"X-Api-Key": {"plaintext-api-key-0123456789"}}
		if _, err := c.HandleRequest(rootCtx, req); err != nil {
			t.Fatal(err)
		}
		return noop.ReqHeaders[len(noop.ReqHeaders)-1]["x-api-key"]
	}

	// Accepted and persisted: X-Api-Key is audited with hmac=true.
	if resp, err := setHeader(true); err != nil || (resp != nil && resp.IsError()) {
		t.Fatalf("resp=%v err=%v", resp, err)
	}
	before := send()
	t.Logf("before: %v", before)
	if len(before) != 1 || before[0] == "plaintext-api-key-0123456789" {
		t.Fatalf("control failed: %v", before)
	}

	// An attempt to switch it to hmac=false fails at the storage write.
	inm.(*physInmem.TransactionalInmemBackend).FailPut(true)
	resp, err := setHeader(false)
	inm.(*physInmem.TransactionalInmemBackend).FailPut(false)
	t.Logf("failed update: resp=%v err=%v", resp, err)
	if err == nil && (resp == nil || !resp.IsError()) {
		t.Fatal("the update was expected to fail")
	}

	after := send()
	t.Logf("after the failed update: %v", after)
	for _, v := range after {
		if v == "plaintext-api-key-0123456789" {
			t.Errorf("the update to hmac=false failed, yet the header is now written in the clear: %q", v)
		}
	}

	// Control: the persisted configuration is still hmac=true.
	if err := c.setupAuditedHeadersConfig(rootCtx); err != nil {
		t.Fatal(err)
	}
	t.Logf("control, after reloading the persisted configuration: %v", send())
}

func huntEnableNoopFW(t *testing.T, c *Core, path string) *corehelpers.NoopAudit {
	t.Helper()
	noop := corehelpers.TestNoopAudit(t, nil)
	c.auditBackends["noop-"+path] = func(ctx context.Context, config *audit.BackendConfig) (audit.Backend, error) {
		return noop, nil
	}
	me := &routing.MountEntry{Table: auditTableType, Path: path, Type: "noop-" + path}
	if err := c.enableAudit(namespace.RootContext(t.Context()), me, true); err != nil {
		t.Fatal(err)
	}
	return noop
}
