package transit

import (
	"encoding/base64"
	"encoding/json"
	"testing"

	"github.com/openbao/openbao/sdk/v2/logical"
)

// A convergent key that dates from the convergent-version-2 era (policy level
// convergent_version = 2, no per-key version) and is then rotated: the new key
// version carries convergent_version 3, encrypt accepts it, but decrypt checks
// the POLICY-level version and refuses the ciphertext it has just produced.
func TestHunt_LegacyConvergentPolicyRotatedEncryptsButCannotDecrypt(t *testing.T) {
	b, s := createBackendWithStorage(t)
	ctx := t.Context()
	do := func(op logical.Operation, path string, data map[string]any) (*logical.Response, error) {
		t.Helper()
		return b.HandleRequest(ctx, &logical.Request{Storage: s, Operation: op, Path: path, Data: data})
	}
	must := func(resp *logical.Response, err error) *logical.Response {
		t.Helper()
		if err != nil || (resp != nil && resp.IsError()) {
			t.Fatalf("unexpected failure: %v %v", err, resp)
		}
		return resp
	}

	must(do(logical.UpdateOperation, "keys/c", map[string]any{
		"derived": true, "convergent_encryption": true, "exportable": true, "allow_plaintext_backup": true,
	}))
	bk := must(do(logical.ReadOperation, "backup/c", nil)).Data["backup"].(string)
	raw, _ := base64.StdEncoding.DecodeString(bk)
	var kd map[string]any
	if err := json.Unmarshal(raw, &kd); err != nil {
		t.Fatal(err)
	}
	// turn it into what a key created by the convergent-v2 code looks like
	pol := kd["policy"].(map[string]any)
	pol["convergent_version"] = 2
	k1 := pol["keys"].(map[string]any)["1"].(map[string]any)
	k1["convergent_version"] = 0
	if ak, ok := kd["archived_keys"].(map[string]any); ok {
		for _, e := range ak["keys"].([]any) {
			e.(map[string]any)["convergent_version"] = 0
		}
	}
	mod, _ := json.Marshal(kd)
	must(do(logical.UpdateOperation, "restore/legacy", map[string]any{"backup": base64.StdEncoding.EncodeToString(mod)}))

	must(do(logical.UpdateOperation, "keys/legacy/rotate", nil))

	pt := base64.StdEncoding.EncodeToString([]byte("the plaintext"))
	cx := base64.StdEncoding.EncodeToString([]byte("ctx"))
	r, err := do(logical.UpdateOperation, "encrypt/legacy", map[string]any{"plaintext": pt, "context": cx})
	if err != nil || r.IsError() {
		t.Skipf("encrypt refused (consistent): %v %v", err, r)
	}
	ct := r.Data["ciphertext"].(string)
	t.Logf("encrypt succeeded: %s", ct)
	r, err = do(logical.UpdateOperation, "decrypt/legacy", map[string]any{"ciphertext": ct, "context": cx})
	if err != nil || r == nil || r.IsError() {
		var e any = err
		if r != nil && r.IsError() {
			e = r.Error()
		}
		t.Errorf("decrypt of the ciphertext just returned by encrypt (same key, same context) fails: %v", e)
	}
}
