package http

import (
	"context"
	"encoding/hex"
	"errors"
	"io"
	"strings"
	"testing"

	"github.com/openbao/openbao/sdk/v2/helper/jsonutil"
	"github.com/openbao/openbao/v2/internal/audit"
	"github.com/openbao/openbao/v2/internal/command/server"
	"github.com/openbao/openbao/v2/internal/helper/configutil"
	"github.com/openbao/openbao/v2/internal/helper/testhelpers/corehelpers"
	"github.com/openbao/openbao/v2/internal/vault"
)

// C11: response data is returned to the client only after its response entry
// was accepted by at least one audit device; if every device fails the client
// receives an error carrying no secret material.
//
// The audited "non logical" endpoints (sys/generate-root/*, sys/rekey/*,
// sys/rekey-recovery-key/*) are wrapped by handleAuditNonLogical, which lets
// the inner handler write straight to the client and only afterwards submits
// the response entry to the audit broker.
func huntNonLogicalServer(t *testing.T) (*corehelpers.NoopAudit, string, string, [][]byte, func()) {
	t.Helper()
	noop := corehelpers.TestNoopAudit(t, nil)
	core, keys, root := vault.TestCoreUnsealedWithConfig(t, &vault.CoreConfig{
		RawConfig: &server.Config{UnsafeAllowAPIAuditCreation: true},
		AuditBackends: map[string]audit.Factory{
			"noop": func(ctx context.Context, config *audit.BackendConfig) (audit.Backend, error) {
				return noop, nil
			},
		},
	})
	ln, addr := TestListener(t)
	props := &vault.HandlerProperties{
		Core: core,
		ListenerConfig: &configutil.Listener{
			Address:                              "127.0.0.1",
			DisableUnauthedGenerateRootEndpoints: new(false),
			DisableUnauthedRekeyEndpoints:        new(false),
		},
	}
	TestServerWithListenerAndProperties(t, ln, addr, core, props)

	resp := testHttpPost(t, root, addr+"/v1/sys/audit/noop", map[string]any{"type": "noop"})
	testResponseStatus(t, resp, 204)
	return noop, addr, root, keys, func() { ln.Close() }
}

func TestHunt_C11_GenerateRootAttempt_ResponseAuditFailure(t *testing.T) {
	noop, addr, _, _, done := huntNonLogicalServer(t)
	defer done()

	// From now on the only audit device refuses every response entry.
	noop.RespErr = errors.New("audit device is down")

	resp := testHttpPut(t, "", addr+"/v1/sys/generate-root/attempt", map[string]any{})
	body, _ := io.ReadAll(resp.Body)
	resp.Body.Close()
	t.Logf("status=%d body=%s", resp.StatusCode, body)

	if resp.StatusCode < 400 {
		t.Errorf("response audit failed on every device, but the client received status %d", resp.StatusCode)
	}
	var first map[string]any
	_ = jsonutil.DecodeJSON(body[:strings.IndexByte(string(body), '\n')+1], &first)
	if otp, _ := first["otp"].(string); otp != "" {
		t.Errorf("response audit failed on every device, but the client received the generate-root OTP %q", otp)
	}
}

func TestHunt_C11_RekeyUpdate_ResponseAuditFailure(t *testing.T) {
	noop, addr, _, keys, done := huntNonLogicalServer(t)
	defer done()

	resp := testHttpPut(t, "", addr+"/v1/sys/rekey/init", map[string]any{
		"secret_shares":    1,
		"secret_threshold": 1,
	})
	testResponseStatus(t, resp, 200)
	var st map[string]any
	testResponseBody(t, resp, &st)
	nonce := st["nonce"].(string)

	var body []byte
	var status int
	for i, key := range keys {
		if i == len(keys)-1 {
			// The final share: the response carries the NEW unseal key.
			noop.RespErr = errors.New("audit device is down")
		}
		resp = testHttpPut(t, "", addr+"/v1/sys/rekey/update", map[string]any{
			"nonce": nonce,
			"key":   hex.EncodeToString(key),
		})
		body, _ = io.ReadAll(resp.Body)
		resp.Body.Close()
		status = resp.StatusCode
	}
	t.Logf("status=%d body=%s", status, body)

	if status < 400 {
		t.Errorf("response audit failed on every device, but the client received status %d", status)
	}
	var first map[string]any
	_ = jsonutil.DecodeJSON(body[:strings.IndexByte(string(body), '\n')+1], &first)
	if ks, _ := first["keys"].([]any); len(ks) > 0 {
		t.Errorf("response audit failed on every device, but the client received the new unseal key shares %v", ks)
	}
}
