package transit

import (
	"encoding/base64"
	"strconv"
	"testing"

	"github.com/openbao/openbao/sdk/v2/logical"
)

// A keys/<name>/import_version request whose storage write fails must not
// leave the new key version behind in the cached policy.
func TestHunt_ImportVersionFailedPutLeavesVersionInCache(t *testing.T) {
	generateKeys(t)
	b, s := createBackendWithStorage(t)
	ims := s.(*logical.InmemStorage)
	ctx := t.Context()

	do := func(bk *backend, op logical.Operation, path string, data map[string]any) (*logical.Response, error) {
		t.Helper()
		return bk.HandleRequest(ctx, &logical.Request{Storage: s, Operation: op, Path: path, Data: data})
	}

	wrappingKey, err := b.getWrappingKey(ctx, s)
	if err != nil || wrappingKey == nil {
		t.Fatalf("wrapping key: %v", err)
	}
	pub := &wrappingKey.Keys[strconv.Itoa(wrappingKey.LatestVersion)].RSAKey.PublicKey

	// 1. import version 1
	k1 := getKey(t, "aes256-gcm96")
	if _, err := do(b, logical.UpdateOperation, "keys/imp/import", map[string]any{
		"ciphertext": wrapTargetKeyForImport(t, pub, k1, "aes256-gcm96", "SHA256"),
		"type":       "aes256-gcm96",
	}); err != nil {
		t.Fatalf("import: %v", err)
	}

	// 2. import_version, storage refuses every Put
	k2 := make([]byte, 32)
	for i := range k2 {
		k2[i] = byte(0xA0 + i)
	}
	blob2 := wrapTargetKeyForImport(t, pub, k2, "aes256-gcm96", "SHA256")
	ims.FailPut(true)
	_, err = do(b, logical.UpdateOperation, "keys/imp/import_version", map[string]any{"ciphertext": blob2})
	ims.FailPut(false)
	if err == nil {
		t.Fatalf("import_version should have failed (storage refuses writes)")
	}
	t.Logf("import_version failed as intended: %v", err)

	// 3. the failed request must have had no effect
	resp, err := do(b, logical.ReadOperation, "keys/imp", nil)
	if err != nil || resp == nil {
		t.Fatalf("read: %v", err)
	}
	if lv := resp.Data["latest_version"].(int); lv != 1 {
		t.Errorf("after a FAILED import_version keys/imp reports latest_version=%d, want 1", lv)
	}

	// 4. encrypt: succeeds and uses the version that was never stored
	pt := base64.StdEncoding.EncodeToString([]byte("the plaintext"))
	resp, err = do(b, logical.UpdateOperation, "encrypt/imp", map[string]any{"plaintext": pt})
	if err != nil || resp == nil || resp.IsError() {
		t.Fatalf("encrypt: %v %v", err, resp)
	}
	ct := resp.Data["ciphertext"].(string)
	t.Logf("ciphertext handed to the client: %s (key_version %v)", ct, resp.Data["key_version"])

	// 5. restart: a new backend over the same storage
	b2 := createBackendWithSysViewWithStorage(t, s)
	resp, err = do(b2, logical.UpdateOperation, "decrypt/imp", map[string]any{"ciphertext": ct})
	if err != nil || resp == nil || resp.IsError() {
		t.Errorf("after restart the ciphertext returned by a successful encrypt cannot be decrypted: err=%v resp=%v", err, errOf(resp))
	} else if resp.Data["plaintext"].(string) != pt {
		t.Errorf("plaintext differs")
	}
}

func errOf(r *logical.Response) any {
	if r == nil {
		return nil
	}
	if r.IsError() {
		return r.Error()
	}
	return r.Data
}
