package pki

import (
	"sort"
	"testing"

	"github.com/stretchr/testify/require"
)

// LIST certs/revoked?after=<entry>&limit=<n> is the paginated report of the
// revoked serials. Keys are returned in colon form (aa:bb:..) but stored (and
// compared by ListPage) in hyphen form (aa-bb-..); `after` is handed to the
// storage untouched. ':' sorts after '-' so every stored serial that shares the
// first byte with the last serial of a page sorts *before* `after` and is
// skipped: a client that pages with the documented `after = last key of the
// previous page` never sees those revoked serials.
func TestHunt_C16_RevokedListPaginationSkipsSerials(t *testing.T) {
	t.Parallel()
	b, s := CreateBackendWithStorage(t)

	resp, err := CBWrite(b, s, "root/generate/internal", map[string]any{
		"common_name": "root example.com", "key_type": "ec",
	})
	requireSuccessNonNilResponse(t, resp, err)
	_, err = CBWrite(b, s, "roles/r", map[string]any{
		"allow_any_name": true, "key_type": "ec", "ttl": "1h",
	})
	require.NoError(t, err)
	// Keep the test fast: no CRL rebuild per revocation.
	_, err = CBWrite(b, s, "config/crl", map[string]any{"auto_rebuild": true})
	require.NoError(t, err)

	// Revoke certificates until two revoked serials share their first byte
	// (expected after ~20, certain after 257).
	firstByte := map[string]bool{}
	for i := 0; i < 300; i++ {
		resp, err = CBWrite(b, s, "issue/r", map[string]any{"common_name": "leaf.example.com"})
		requireSuccessNonNilResponse(t, resp, err)
		serial := resp.Data["serial_number"].(string)
		resp, err = CBWrite(b, s, "revoke", map[string]any{"serial_number": serial})
		requireSuccessNonNilResponse(t, resp, err)
		require.Equal(t, "revoked", resp.Data["state"])
		if firstByte[serial[:2]] && i >= 5 {
			break
		}
		firstByte[serial[:2]] = true
	}

	// Ground truth: the unpaginated listing.
	resp, err = CBList(b, s, "certs/revoked")
	requireSuccessNonNilResponse(t, resp, err)
	all := append([]string{}, resp.Data["keys"].([]string)...)
	sort.Strings(all)

	// Page through it the documented way.
	for _, limit := range []int{1, 2, 5} {
		var paged []string
		after := ""
		for range all {
			resp, err = CBPaginatedList(b, s, "certs/revoked", after, limit)
			require.NoError(t, err)
			if resp == nil || resp.Data["keys"] == nil {
				break
			}
			keys := resp.Data["keys"].([]string)
			if len(keys) == 0 {
				break
			}
			paged = append(paged, keys...)
			after = keys[len(keys)-1]
			if len(keys) < limit {
				break
			}
		}
		sort.Strings(paged)

		seen := map[string]bool{}
		for _, k := range paged {
			seen[k] = true
		}
		var missing []string
		for _, k := range all {
			if !seen[k] {
				missing = append(missing, k)
			}
		}
		if len(missing) > 0 {
			t.Errorf("limit=%d: paginated certs/revoked listing returned %d of %d revoked serials; never listed: %v",
				limit, len(paged), len(all), missing)
		}
	}
}
