package pki

import (
	"context"
	"crypto"
	"encoding/base64"
	"errors"
	"strings"
	"sync"
	"testing"

	"github.com/openbao/openbao/sdk/v2/logical"
	"github.com/stretchr/testify/require"
	"golang.org/x/crypto/ocsp"
)

// huntPutFault fails the next n Puts below a key prefix.
type huntPutFault struct {
	logical.Storage
	mu     sync.Mutex
	prefix string
	left   int
}

func (f *huntPutFault) arm(prefix string, n int) {
	f.mu.Lock()
	defer f.mu.Unlock()
	f.prefix, f.left = prefix, n
}

func (f *huntPutFault) Put(ctx context.Context, e *logical.StorageEntry) error {
	f.mu.Lock()
	if f.left > 0 && strings.HasPrefix(e.Key, f.prefix) {
		f.left--
		f.mu.Unlock()
		return errors.New("hunt: injected storage failure on " + e.Key)
	}
	f.mu.Unlock()
	return f.Storage.Put(ctx, e)
}

// issuer/<ref>/revoke writes the issuer entry (revoked=true) first, then the
// revoked/<serial> entry, then rebuilds the CRL. A failure (or crash) after the
// first write makes the retry take the `if issuer.Revoked { return read }`
// shortcut: it reports success although revoked/<serial> was never written and
// the CRL was never rebuilt. Status API and OCSP then report the revoked CA
// certificate as not revoked / good for good, and with auto_rebuild off the
// parent's CRL served after the call lacks it.
func TestHunt_C16_IssuerRevokeRetrySkipsEntryAndCRL(t *testing.T) {
	t.Parallel()
	huntIssuerRevoke(t, true)
}

// Control: without the fault the very same checks pass.
func TestHunt_C16_IssuerRevokeControl(t *testing.T) {
	t.Parallel()
	huntIssuerRevoke(t, false)
}

func huntIssuerRevoke(t *testing.T, inject bool) {
	b, inner := CreateBackendWithStorage(t)
	s := &huntPutFault{Storage: inner}

	resp, err := CBWrite(b, s, "root/generate/internal", map[string]any{
		"common_name": "root example.com", "key_type": "ec", "issuer_name": "root",
		"not_after": "9999-12-31T23:59:59Z",
	})
	requireSuccessNonNilResponse(t, resp, err)
	rootCert := parseCert(t, resp.Data["certificate"].(string))

	resp, err = CBWrite(b, s, "intermediate/generate/internal", map[string]any{
		"common_name": "int example.com", "key_type": "ec",
	})
	requireSuccessNonNilResponse(t, resp, err)
	resp, err = CBWrite(b, s, "issuer/root/sign-intermediate", map[string]any{
		"csr": resp.Data["csr"], "common_name": "int example.com", "ttl": "24h",
	})
	requireSuccessNonNilResponse(t, resp, err)
	intPEM := resp.Data["certificate"].(string)
	intCert := parseCert(t, intPEM)
	serial := resp.Data["serial_number"].(string)

	resp, err = CBWrite(b, s, "intermediate/set-signed", map[string]any{"certificate": intPEM})
	requireSuccessNonNilResponse(t, resp, err)
	intID := resp.Data["imported_issuers"].([]string)[0]

	// First attempt: the revoked/<serial> write fails after the issuer entry
	// was already persisted with revoked=true.
	if inject {
		s.arm("revoked/", 1)
		_, err = CBWrite(b, s, "issuer/"+intID+"/revoke", map[string]any{})
		require.Error(t, err, "first attempt must surface the storage failure")
	}

	// Restart: fresh backend over the same storage, then the operator retries.
	b2 := huntRestart(t, inner)
	resp, err = CBWrite(b2, s, "issuer/"+intID+"/revoke", map[string]any{})
	requireSuccessNonNilResponse(t, resp, err)
	require.Equal(t, true, resp.Data["revoked"], "retry reports the issuer revoked")

	var problems []string

	// 1. Certificate status API.
	resp, err = CBRead(b2, s, "cert/"+serial)
	requireSuccessNonNilResponse(t, resp, err)
	if rt, _ := resp.Data["revocation_time"].(int64); rt == 0 {
		problems = append(problems, "cert/<serial> reports revocation_time=0 (not revoked)")
	}

	// 2. OCSP, asked about the intermediate at its issuer (the root).
	der, err := ocsp.CreateRequest(intCert, rootCert, &ocsp.RequestOptions{Hash: crypto.SHA256})
	require.NoError(t, err)
	resp, err = CBRead(b2, s, "ocsp/"+base64.StdEncoding.EncodeToString(der))
	requireSuccessNonNilResponse(t, resp, err)
	oresp, err := ocsp.ParseResponse(resp.Data[logical.HTTPRawBody].([]byte), rootCert)
	require.NoError(t, err)
	if oresp.Status != ocsp.Revoked {
		problems = append(problems, "OCSP status = "+map[int]string{ocsp.Good: "good", ocsp.Unknown: "unknown"}[oresp.Status])
	}

	// 3. The CRL of its issuer served after the call returned (auto_rebuild
	// is off by default).
	crl := getParsedCrlFromBackend(t, b2, s, "issuer/root/crl/der")
	if !requireSerialNumberInCRL(nil, crl, serial) {
		problems = append(problems, "root CRL served after the call lacks the serial")
	}

	if len(problems) > 0 {
		t.Fatalf("issuer revocation of %s reported successful, but: %s", serial, strings.Join(problems, "; "))
	}
}

func huntRestart(t *testing.T, storage logical.Storage) *backend {
	t.Helper()
	config := logical.TestBackendConfig()
	config.StorageView = storage
	b := Backend(config)
	require.NoError(t, b.Setup(context.Background(), config))
	require.NoError(t, b.Initialize(context.Background(), &logical.InitializationRequest{Storage: storage}))
	return b
}
