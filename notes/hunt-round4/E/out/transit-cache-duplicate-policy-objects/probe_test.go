package transit

import (
	"context"
	"encoding/base64"
	"testing"

	"github.com/openbao/openbao/sdk/v2/logical"
)

// huntHookStorage is a plain (non-transactional) storage with a hook that runs
// just before a Put reaches the storage: it lets the test place concurrent
// requests at an exact point of the interleaving (request A is then parked
// inside Persist, holding the exclusive lock of ITS policy object).
type huntHookStorage struct {
	logical.Storage
	beforePut func(key string)
}

func (s *huntHookStorage) Put(ctx context.Context, e *logical.StorageEntry) error {
	if s.beforePut != nil {
		s.beforePut(e.Key)
	}
	return s.Storage.Put(ctx, e)
}

// Writing transit/cache-config replaces the lock manager's cache object while
// requests may hold policies taken from the old one. The next request for the
// same key finds the new cache empty, loads a SECOND policy object from storage
// and works on it under a different lock: two rotations of one key run
// concurrently, both succeed, and the one that finishes last overwrites the
// key version under which ciphertexts were already handed out.
func TestHunt_CacheConfigSwapAllowsTwoWritersOnOneKey(t *testing.T) {
	s := &huntHookStorage{Storage: &logical.InmemStorage{}}
	b := createBackendWithSysViewWithStorage(t, s)
	ctx := t.Context()
	do := func(bk *backend, op logical.Operation, path string, data map[string]any) (*logical.Response, error) {
		t.Helper()
		return bk.HandleRequest(ctx, &logical.Request{Storage: s, Operation: op, Path: path, Data: data})
	}
	must := func(resp *logical.Response, err error) *logical.Response {
		t.Helper()
		if err != nil || (resp != nil && resp.IsError()) {
			t.Fatalf("unexpected failure: %v %v", err, resp)
		}
		return resp
	}
	pt := base64.StdEncoding.EncodeToString([]byte("the plaintext"))

	must(do(b, logical.UpdateOperation, "keys/k", nil))

	var ct string
	fired := false
	s.beforePut = func(key string) {
		if fired || key != "archive/k" {
			return
		}
		fired = true
		// request A (rotate) is parked before its first write.
		// operator: resize the cache
		must(do(b, logical.UpdateOperation, "cache-config", map[string]any{"size": 20}))
		// request B: another rotation of the same key (e.g. the auto-rotation
		// or a second operator); it must wait for A - but does not
		must(do(b, logical.UpdateOperation, "keys/k/rotate", nil))
		// request C: encrypt
		r := must(do(b, logical.UpdateOperation, "encrypt/k", map[string]any{"plaintext": pt}))
		ct = r.Data["ciphertext"].(string)
		t.Logf("while A is parked: B rotated, C encrypted: %s", ct)
	}
	// request A
	must(do(b, logical.UpdateOperation, "keys/k/rotate", nil))
	s.beforePut = nil
	if !fired {
		t.Fatal("hook did not fire")
	}

	r := must(do(b, logical.ReadOperation, "keys/k", nil))
	t.Logf("both rotations succeeded; latest_version=%v", r.Data["latest_version"])
	if r.Data["latest_version"].(int) != 3 {
		t.Errorf("two successful rotations of a one-version key: latest_version=%v, want 3", r.Data["latest_version"])
	}

	// restart
	b2 := createBackendWithSysViewWithStorage(t, s)
	resp, err := do(b2, logical.UpdateOperation, "decrypt/k", map[string]any{"ciphertext": ct})
	if err != nil || resp == nil || resp.IsError() {
		var e any = err
		if resp != nil && resp.IsError() {
			e = resp.Error()
		}
		t.Errorf("after restart the ciphertext returned by a successful encrypt cannot be decrypted: %v", e)
	} else if resp.Data["plaintext"].(string) != pt {
		t.Errorf("plaintext differs")
	}
}

// The same double-writer window without touching cache-config while requests
// run: the mount uses a bounded cache (cache-config size=10, set beforehand);
// while request A is parked, traffic on other keys evicts k from the LRU.
func TestHunt_LRUEvictionAllowsTwoWritersOnOneKey(t *testing.T) {
	s := &huntHookStorage{Storage: &logical.InmemStorage{}}
	b := createBackendWithSysViewWithStorage(t, s)
	ctx := t.Context()
	do := func(bk *backend, op logical.Operation, path string, data map[string]any) (*logical.Response, error) {
		t.Helper()
		return bk.HandleRequest(ctx, &logical.Request{Storage: s, Operation: op, Path: path, Data: data})
	}
	must := func(resp *logical.Response, err error) *logical.Response {
		t.Helper()
		if err != nil || (resp != nil && resp.IsError()) {
			t.Fatalf("unexpected failure: %v %v", err, resp)
		}
		return resp
	}
	pt := base64.StdEncoding.EncodeToString([]byte("the plaintext"))

	must(do(b, logical.UpdateOperation, "cache-config", map[string]any{"size": 10}))
	must(do(b, logical.UpdateOperation, "keys/k", nil))
	names := []string{}
	for i := 0; i < 24; i++ {
		n := "other" + string(rune('a'+i))
		names = append(names, n)
		must(do(b, logical.UpdateOperation, "keys/"+n, nil))
	}

	var ct string
	fired := false
	s.beforePut = func(key string) {
		if fired || key != "archive/k" {
			return
		}
		fired = true
		// traffic on other keys while A is parked
		for round := 0; round < 3; round++ {
			for _, n := range names {
				must(do(b, logical.UpdateOperation, "encrypt/"+n, map[string]any{"plaintext": pt}))
			}
		}
		must(do(b, logical.UpdateOperation, "keys/k/rotate", nil))
		r := must(do(b, logical.UpdateOperation, "encrypt/k", map[string]any{"plaintext": pt}))
		ct = r.Data["ciphertext"].(string)
		t.Logf("while A is parked: B rotated, C encrypted: %s", ct)
	}
	// request A
	must(do(b, logical.UpdateOperation, "keys/k/rotate", nil))
	s.beforePut = nil
	if !fired {
		t.Fatal("hook did not fire")
	}

	b2 := createBackendWithSysViewWithStorage(t, s)
	resp, err := do(b2, logical.UpdateOperation, "decrypt/k", map[string]any{"ciphertext": ct})
	if err != nil || resp == nil || resp.IsError() {
		var e any = err
		if resp != nil && resp.IsError() {
			e = resp.Error()
		}
		t.Errorf("after restart the ciphertext returned by a successful encrypt cannot be decrypted: %v", e)
	}
}
