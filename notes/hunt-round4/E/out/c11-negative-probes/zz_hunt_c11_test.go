package vault

import (
	"context"
	"errors"
	"fmt"
	"os"
	"path/filepath"
	"strings"
	"testing"
	"time"

	"github.com/openbao/openbao/sdk/v2/logical"
	"github.com/openbao/openbao/v2/internal/audit"
	auditFile "github.com/openbao/openbao/v2/internal/builtin/audit/file"
	"github.com/openbao/openbao/v2/internal/helper/namespace"
	"github.com/openbao/openbao/v2/internal/helper/testhelpers/corehelpers"
	"github.com/openbao/openbao/v2/internal/vault/routing"
)

func huntEnableNoop(t *testing.T, c *Core, path string) *corehelpers.NoopAudit {
	t.Helper()
	noop := corehelpers.TestNoopAudit(t, nil)
	c.auditBackends["noop-"+path] = func(ctx context.Context, config *audit.BackendConfig) (audit.Backend, error) {
		return noop, nil
	}
	me := &routing.MountEntry{Table: auditTableType, Path: path, Type: "noop-" + path}
	if err := c.enableAudit(namespace.RootContext(t.Context()), me, true); err != nil {
		t.Fatal(err)
	}
	return noop
}

type huntPanicAudit struct {
	*corehelpers.NoopAudit
	panicReq, panicResp bool
}

func (p *huntPanicAudit) LogRequest(ctx context.Context, in *logical.LogInput) error {
	if p.panicReq {
		panic("device blew up")
	}
	return p.NoopAudit.LogRequest(ctx, in)
}

func (p *huntPanicAudit) LogResponse(ctx context.Context, in *logical.LogInput) error {
	if p.panicResp {
		panic("device blew up")
	}
	return p.NoopAudit.LogResponse(ctx, in)
}

// P2: failure matrix over two devices.
func TestHunt_C11_FailureMatrix(t *testing.T) {
	c, _, root := TestCoreUnsealed(t)
	rootCtx := namespace.RootContext(t.Context())
	a := huntEnableNoop(t, c, "a")
	bInner := corehelpers.TestNoopAudit(t, nil)
	b := &huntPanicAudit{NoopAudit: bInner}
	c.auditBackends["panic"] = func(ctx context.Context, config *audit.BackendConfig) (audit.Backend, error) {
		return b, nil
	}
	if err := c.enableAudit(rootCtx, &routing.MountEntry{Table: auditTableType, Path: "b", Type: "panic"}, true); err != nil {
		t.Fatal(err)
	}

	secretOf := func(resp *logical.Response) string {
		if resp == nil {
			return ""
		}
		return fmt.Sprintf("%v %v %v", resp.Data, resp.Auth, resp.WrapInfo)
	}
	reset := func() {
		a.ReqErr, a.RespErr, bInner.ReqErr, bInner.RespErr = nil, nil, nil, nil
		b.panicReq, b.panicResp = false, false
	}
	fail := errors.New("down")

	// seed
	req := logical.TestRequest(t, logical.UpdateOperation, "secret/seed")
	req.ClientToken = root
	req.Data["v"] = "seed-secret-value"
	if _, err := c.HandleRequest(rootCtx, req); err != nil {
		t.Fatal(err)
	}

	type mode struct {
		name  string
		set   func()
		allow bool
	}
	reqModes := []mode{
		{"a-fails", func() { a.ReqErr = fail }, true},
		{"b-fails", func() { bInner.ReqErr = fail }, true},
		{"both-fail", func() { a.ReqErr = fail; bInner.ReqErr = fail }, false},
		{"b-panics", func() { b.panicReq = true }, false},
		{"a-fails-b-panics", func() { a.ReqErr = fail; b.panicReq = true }, false},
	}
	for i, m := range reqModes {
		reset()
		m.set()
		p := fmt.Sprintf("secret/w%d", i)
		req := logical.TestRequest(t, logical.UpdateOperation, p)
		req.ClientToken = root
		req.Data["v"] = "x"
		resp, err := c.HandleRequest(rootCtx, req)
		reset()
		rd := logical.TestRequest(t, logical.ReadOperation, p)
		rd.ClientToken = root
		got, _ := c.HandleRequest(rootCtx, rd)
		written := got != nil && got.Data != nil
		t.Logf("request-audit %s: err=%v resp=%v written=%v", m.name, err, resp, written)
		if !m.allow && written {
			t.Errorf("request-audit %s: write took effect although no device accepted the request entry", m.name)
		}
		if m.allow && !written {
			t.Logf("note: %s: conservative refusal", m.name)
		}
	}

	respModes := []mode{
		{"a-fails", func() { a.RespErr = fail }, true},
		{"both-fail", func() { a.RespErr = fail; bInner.RespErr = fail }, false},
		{"b-panics", func() { b.panicResp = true }, false},
		{"a-fails-b-panics", func() { a.RespErr = fail; b.panicResp = true }, false},
	}
	kinds := []struct {
		name string
		mk   func() *logical.Request
	}{
		{"kv-read", func() *logical.Request {
			r := logical.TestRequest(t, logical.ReadOperation, "secret/seed")
			return r
		}},
		{"token-create", func() *logical.Request {
			r := logical.TestRequest(t, logical.UpdateOperation, "auth/token/create")
			r.Data["policies"] = []string{"default"}
			return r
		}},
		{"token-create-wrapped", func() *logical.Request {
			r := logical.TestRequest(t, logical.UpdateOperation, "auth/token/create")
			r.Data["policies"] = []string{"default"}
			r.WrapInfo = &logical.RequestWrapInfo{TTL: time.Minute}
			return r
		}},
		{"lookup-self", func() *logical.Request {
			return logical.TestRequest(t, logical.ReadOperation, "auth/token/lookup-self")
		}},
		{"denied", func() *logical.Request {
			r := logical.TestRequest(t, logical.ReadOperation, "secret/seed")
			r.ClientToken = "not-a-token"
			return r
		}},
	}
	for _, k := range kinds {
		for _, m := range respModes {
			reset()
			m.set()
			req := k.mk()
			if req.ClientToken == "" {
				req.ClientToken = root
			}
			resp, err := c.HandleRequest(rootCtx, req)
			reset()
			s := secretOf(resp)
			t.Logf("response-audit %s/%s: err=%v resp=%s", k.name, m.name, err, s)
			if !m.allow && k.name != "denied" && (resp != nil) {
				t.Errorf("response-audit %s/%s: response returned although no device accepted the response entry: %s", k.name, m.name, s)
			}
		}
	}
}

// P5: end-to-end plaintext scan with a real file device (default options).
func TestHunt_C11_PlaintextScan(t *testing.T) {
	c, _, root := TestCoreUnsealed(t)
	rootCtx := namespace.RootContext(t.Context())
	c.auditBackends["file"] = auditFile.Factory
	logPath := filepath.Join(t.TempDir(), "audit.log")
	if err := c.enableAudit(rootCtx, &routing.MountEntry{
		Table: auditTableType, Path: "file", Type: "file",
		Options: map[string]string{"file_path": logPath},
	}, true); err != nil {
		t.Fatal(err)
	}

	secrets := map[string]string{"root": root}
	do := func(name string, req *logical.Request) *logical.Response {
		t.Helper()
		if req.ClientToken == "" {
			req.ClientToken = root
		}
		resp, err := c.HandleRequest(rootCtx, req)
		if err != nil {
			t.Logf("%s: err=%v", name, err)
		}
		if resp != nil {
			if resp.Auth != nil {
				secrets[name+".token"] = resp.Auth.ClientToken
				secrets[name+".accessor"] = resp.Auth.Accessor
			}
			if resp.WrapInfo != nil {
				secrets[name+".wraptoken"] = resp.WrapInfo.Token
				secrets[name+".wrapaccessor"] = resp.WrapInfo.Accessor
				if resp.WrapInfo.WrappedAccessor != "" {
					secrets[name+".wrappedaccessor"] = resp.WrapInfo.WrappedAccessor
				}
			}
		}
		return resp
	}

	// kv nested
	r := logical.TestRequest(t, logical.UpdateOperation, "secret/app")
	r.Data = map[string]any{
		"password": "kv-PLAINSECRET-1",
		"nested":   map[string]any{"deep": []any{"kv-PLAINSECRET-2", map[string]any{"k": "kv-PLAINSECRET-3"}}},
		"list":     []string{"kv-PLAINSECRET-4"},
		"m":        map[string]string{"k": "kv-PLAINSECRET-5"},
		"mm":       map[string][]string{"k": {"kv-PLAINSECRET-6"}},
	}
	do("kvw", r)
	do("kvr", logical.TestRequest(t, logical.ReadOperation, "secret/app"))

	// token create
	r = logical.TestRequest(t, logical.UpdateOperation, "auth/token/create")
	r.Data["policies"] = []string{"default"}
	tc := do("tc", r)
	child := tc.Auth.ClientToken
	childAcc := tc.Auth.Accessor

	r = logical.TestRequest(t, logical.UpdateOperation, "auth/token/lookup")
	r.Data["token"] = child
	do("lookup", r)
	r = logical.TestRequest(t, logical.UpdateOperation, "auth/token/lookup-accessor")
	r.Data["accessor"] = childAcc
	do("lookup-acc", r)
	r = logical.TestRequest(t, logical.ReadOperation, "auth/token/lookup-self")
	r.ClientToken = child
	do("lookup-self", r)
	r = logical.TestRequest(t, logical.UpdateOperation, "auth/token/renew-self")
	r.ClientToken = child
	do("renew-self", r)
	do("accessors", logical.TestRequest(t, logical.ListOperation, "auth/token/accessors/"))

	// wrapped token create + lookup + rewrap + unwrap
	r = logical.TestRequest(t, logical.UpdateOperation, "auth/token/create")
	r.Data["policies"] = []string{"default"}
	r.WrapInfo = &logical.RequestWrapInfo{TTL: time.Minute}
	w := do("wtc", r)
	wt := w.WrapInfo.Token
	r = logical.TestRequest(t, logical.UpdateOperation, "sys/wrapping/lookup")
	r.Data["token"] = wt
	do("wlookup", r)
	r = logical.TestRequest(t, logical.UpdateOperation, "sys/wrapping/rewrap")
	r.Data["token"] = wt
	rw := do("rewrap", r)
	wt2 := rw.WrapInfo.Token
	r = logical.TestRequest(t, logical.UpdateOperation, "sys/wrapping/unwrap")
	r.Data["token"] = wt2
	un := do("unwrap-3rd", r)
	if un != nil && un.Data != nil {
		if b, ok := un.Data[logical.HTTPRawBody].([]byte); ok {
			// pick the inner client token
			s := string(b)
			if i := strings.Index(s, `"client_token":"`); i >= 0 {
				s = s[i+len(`"client_token":"`):]
				secrets["unwrapped.token"] = s[:strings.IndexByte(s, '"')]
			}
			s = string(b)
			if i := strings.Index(s, `"accessor":"`); i >= 0 {
				s = s[i+len(`"accessor":"`):]
				secrets["unwrapped.accessor"] = s[:strings.IndexByte(s, '"')]
			}
		}
	}

	// sys/wrapping/wrap of arbitrary data, first-party unwrap
	r = logical.TestRequest(t, logical.UpdateOperation, "sys/wrapping/wrap")
	r.Data["pw"] = "wrap-PLAINSECRET-7"
	r.WrapInfo = &logical.RequestWrapInfo{TTL: time.Minute}
	ww := do("wrap", r)
	r = logical.TestRequest(t, logical.UpdateOperation, "sys/wrapping/unwrap")
	r.ClientToken = ww.WrapInfo.Token
	do("unwrap-1st", r)

	// kv read wrapped, unwrap via cubbyhole/response (deprecated)
	r = logical.TestRequest(t, logical.ReadOperation, "secret/app")
	r.WrapInfo = &logical.RequestWrapInfo{TTL: time.Minute}
	kw := do("kvwrapped", r)
	r = logical.TestRequest(t, logical.ReadOperation, "cubbyhole/response")
	r.ClientToken = kw.WrapInfo.Token
	do("cubby-response", r)

	// cubbyhole
	r = logical.TestRequest(t, logical.UpdateOperation, "cubbyhole/x")
	r.ClientToken = child
	r.Data["v"] = "cubby-PLAINSECRET-8"
	do("cubw", r)
	r = logical.TestRequest(t, logical.ReadOperation, "cubbyhole/x")
	r.ClientToken = child
	do("cubr", r)

	// revoke by accessor, bad token
	r = logical.TestRequest(t, logical.UpdateOperation, "auth/token/revoke-accessor")
	r.Data["accessor"] = childAcc
	do("revacc", r)
	r = logical.TestRequest(t, logical.ReadOperation, "secret/app")
	r.ClientToken = "bogus-PLAINSECRET-9"
	do("bogus", r)
	r = logical.TestRequest(t, logical.UpdateOperation, "sys/wrapping/unwrap")
	r.Data["token"] = "bogus-PLAINSECRET-10"
	do("bogus-unwrap", r)

	log, err := os.ReadFile(logPath)
	if err != nil {
		t.Fatal(err)
	}
	text := string(log)
	t.Logf("audit log: %d bytes, %d lines", len(text), strings.Count(text, "\n"))
	if i := strings.Index(text, "PLAINSECRET"); i >= 0 {
		lo := max(0, i-200)
		t.Errorf("plaintext data value in audit log: ...%s...", text[lo:min(len(text), i+60)])
	}
	for name, s := range secrets {
		if s == "" {
			continue
		}
		if i := strings.Index(text, s); i >= 0 {
			ls := strings.LastIndexByte(text[:i], '\n') + 1
			le := strings.IndexByte(text[i:], '\n') + i
			line := text[ls:le]
			if len(line) > 1500 {
				line = line[:1500]
			}
			t.Errorf("plaintext %s (%s) in audit log line: %s", name, s, line)
		}
	}
}
