package vault

import (
	"context"
	"github.com/openbao/openbao/v2/internal/audit"
	"github.com/openbao/openbao/v2/internal/helper/testhelpers/corehelpers"
	"github.com/openbao/openbao/v2/internal/vault/routing"
	"testing"

	"github.com/openbao/openbao/sdk/v2/logical"
	"github.com/openbao/openbao/v2/internal/helper/namespace"
)

// C11: in non-raw mode audit entries never contain the plaintext of values
// that are configured to be HMAC'd (here: an audited request header with
// hmac=true).
//
// A standby node (standby reads enabled: reads are served and audited
// locally) keeps its audited-headers configuration in memory
// (Core.auditedHeaders, loaded once at unseal). The storage invalidation of
// sys/audited-headers-config/audited-headers is not dispatched anywhere
// (invalidation.go: "no mechanism to invalidate system cache for specified
// key"), so after the active node switched a header to hmac=true the standby
// keeps writing the header value in the clear until it is restarted.
func TestHunt_C11_AuditedHeaders_StandbyInvalidation(t *testing.T) {
	c, _, root := TestCoreUnsealed(t)
	noop := huntEnableNoopSB(t, c, "noop")
	rootCtx := namespace.RootContext(t.Context())

	// Operator: audit the header X-Api-Key in the clear.
	req := logical.TestRequest(t, logical.UpdateOperation, "sys/config/auditing/request-headers/X-Api-Key")
	req.ClientToken = root
	req.Data["hmac"] = false
	if resp, err := c.HandleRequest(rootCtx, req); err != nil || (resp != nil && resp.IsError()) {
		t.Fatalf("resp=%v err=%v", resp, err)
	}

	// This node is a standby from now on (same harness as invalidation_test.go:
	// testCore_Invalidate_TestCore).
	c.standby.Store(true)
	c.invalidations.Track()
	c.stateLock.RLock()
	c.invalidations.Start(t.Context())
	c.stateLock.RUnlock()

	// The active node switches the header to hmac=true
	// (POST sys/config/auditing/request-headers/X-Api-Key hmac=true): the
	// storage entry changes and the standby receives the invalidation.
	key := "sys/" + auditedHeadersSubPath + auditedHeadersEntry
	entry, err := logical.StorageEntryJSON(key, map[string]*auditedHeaderSettings{
		"x-api-key": {HMAC: true},
	})
	if err != nil {
		t.Fatal(err)
	}
	c.physicalCache.SetEnabled(false)
	if err := c.NamespaceView(namespace.RootNamespace).Put(rootCtx, entry); err != nil {
		t.Fatal(err)
	}
	c.physicalCache.SetEnabled(true)
	if err := c.invalidateSynchronous(key); err != nil {
		t.Fatal(err)
	}

	send := func() []string {
		req := logical.TestRequest(t, logical.ReadOperation, "sys/mounts")
		req.ClientToken = root
		req.Headers = map[string][]string{"X-Api-Key": {"plaintext-api-key-0123456789"}}
		if _, err := c.HandleRequest(rootCtx, req); err != nil {
			t.Fatal(err)
		}
		return noop.ReqHeaders[len(noop.ReqHeaders)-1]["x-api-key"]
	}

	// A read served by the standby.
	got := send()
	t.Logf("x-api-key in the request entry written by the standby: %v", got)
	for _, v := range got {
		if v == "plaintext-api-key-0123456789" {
			t.Errorf("header whose persisted configuration is hmac=true was written in the clear by the standby: %q", v)
		}
	}

	// Control: what a restart (re-unseal) of the standby would load.
	if err := c.setupAuditedHeadersConfig(rootCtx); err != nil {
		t.Fatal(err)
	}
	t.Logf("control, after reloading the persisted configuration: %v", send())
}

func huntEnableNoopSB(t *testing.T, c *Core, path string) *corehelpers.NoopAudit {
	t.Helper()
	noop := corehelpers.TestNoopAudit(t, nil)
	c.auditBackends["noop-"+path] = func(ctx context.Context, config *audit.BackendConfig) (audit.Backend, error) {
		return noop, nil
	}
	me := &routing.MountEntry{Table: auditTableType, Path: path, Type: "noop-" + path}
	if err := c.enableAudit(namespace.RootContext(t.Context()), me, true); err != nil {
		t.Fatal(err)
	}
	return noop
}
