package pki

import (
	"crypto"
	"encoding/base64"
	"fmt"
	"strings"
	"testing"

	"github.com/openbao/openbao/sdk/v2/logical"
	"github.com/stretchr/testify/require"
	"golang.org/x/crypto/ocsp"
)

// Two issuers with the same key and the same subject share one CRL. A revoked
// leaf is associated (revoked/<serial>.issuer_id) with ONE of them. When that
// member of the set loses crl-signing usage while the other member keeps it,
// the shared CRL (signed by the other member) no longer lists the serial.
func TestHunt_C16_EquivalentIssuerWithoutCRLUsageDropsRevoked(t *testing.T) {
	t.Parallel()
	b, s := CreateBackendWithStorage(t)

	// Issuer A.
	resp, err := CBWrite(b, s, "root/generate/internal", map[string]any{
		"common_name": "root example.com",
		"key_type":    "ec",
		"issuer_name": "a",
		"ttl":         "87600h",
	})
	requireSuccessNonNilResponse(t, resp, err)
	keyID := resp.Data["key_id"]

	_, err = CBWrite(b, s, "roles/r", map[string]any{
		"allow_any_name": true, "key_type": "ec", "ttl": "1h",
	})
	require.NoError(t, err)

	// Leaf issued by A, revoked while A is the only issuer (association = A).
	resp, err = CBWrite(b, s, "issue/r", map[string]any{"common_name": "leaf1.example.com"})
	requireSuccessNonNilResponse(t, resp, err)
	serial := resp.Data["serial_number"].(string)
	leaf := parseCert(t, resp.Data["certificate"].(string))

	resp, err = CBWrite(b, s, "revoke", map[string]any{"serial_number": serial})
	requireSuccessNonNilResponse(t, resp, err)

	crl := getParsedCrlFromBackend(t, b, s, "issuer/a/crl/der")
	require.True(t, requireSerialNumberInCRL(nil, crl, serial), "sanity: serial on A's CRL right after revoke")

	// Issuer B: re-issued root, same key, same subject (root rotation with
	// the existing key).
	resp, err = CBWrite(b, s, "issuers/generate/root/existing", map[string]any{
		"common_name": "root example.com",
		"key_ref":     keyID,
		"issuer_name": "b",
		"ttl":         "87600h",
	})
	requireSuccessNonNilResponse(t, resp, err)
	bCert := parseCert(t, resp.Data["certificate"].(string))

	crl = getParsedCrlFromBackend(t, b, s, "issuer/b/crl/der")
	require.True(t, requireSerialNumberInCRL(nil, crl, serial), "sanity: serial on the shared CRL with both issuers enabled")

	// Retire A: it keeps existing (read-only) but may no longer sign CRLs.
	resp, err = CBWrite(b, s, "issuer/a", map[string]any{
		"usage": "read-only",
	})
	requireSuccessNonNilResponse(t, resp, err)

	// Any complete CRL built afterwards.
	resp, err = CBRead(b, s, "crl/rotate")
	requireSuccessNonNilResponse(t, resp, err)

	// Status API still says revoked.
	resp, err = CBRead(b, s, "cert/"+serial)
	requireSuccessNonNilResponse(t, resp, err)
	require.NotZero(t, resp.Data["revocation_time"], "cert status API must report revoked")

	var problems []string

	// The leaf verifies under B (same key + subject), whose CRL is the shared CRL.
	require.NoError(t, leaf.CheckSignatureFrom(bCert), "leaf verifies under B")
	crl = getParsedCrlFromBackend(t, b, s, "issuer/b/crl/der")
	require.NoError(t, crl.CheckSignatureFrom(bCert), "CRL signed by B")
	if !requireSerialNumberInCRL(nil, crl, serial) {
		problems = append(problems, fmt.Sprintf("missing from the complete CRL (number %v, %d entries) of its issuer set", crl.Number, len(crl.RevokedCertificateEntries)))
	}

	// OCSP asked with B as issuer (B has ocsp-signing usage and answers for
	// unrevoked certificates of the set).
	der, err := ocsp.CreateRequest(leaf, bCert, &ocsp.RequestOptions{Hash: crypto.SHA256})
	require.NoError(t, err)
	resp, err = CBRead(b, s, "ocsp/"+base64.StdEncoding.EncodeToString(der))
	requireSuccessNonNilResponse(t, resp, err)
	if o, err := ocsp.ParseResponse(resp.Data[logical.HTTPRawBody].([]byte), bCert); err != nil {
		problems = append(problems, "OCSP does not report it revoked: "+err.Error())
	} else if o.Status != ocsp.Revoked {
		problems = append(problems, fmt.Sprintf("OCSP status %d, want revoked", o.Status))
	}

	if len(problems) > 0 {
		t.Fatalf("revoked serial %s (status API: revoked) after the equivalent issuer lost its crl-signing/ocsp-signing usage: %s", serial, strings.Join(problems, "; "))
	}
}
