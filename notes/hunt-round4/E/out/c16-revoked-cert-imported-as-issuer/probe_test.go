package pki

import (
	"testing"

	"github.com/stretchr/testify/require"
)

// A CA certificate signed by the mount's root is revoked through /revoke (it
// is not an issuer of the mount at that time, so this is allowed and it lands
// on the root's CRL). Importing that certificate as an issuer afterwards makes
// every later complete CRL of the root drop the serial: the CRL builder skips
// revocation entries whose certificate is an issuer of the mount, assuming the
// issuer entry itself is flagged revoked -- which import never does.
func TestHunt_C16_RevokedCertImportedAsIssuerLeavesCRL(t *testing.T) {
	t.Parallel()
	b, s := CreateBackendWithStorage(t)

	resp, err := CBWrite(b, s, "root/generate/internal", map[string]any{
		"common_name": "root example.com",
		"key_type":    "ec",
		"issuer_name": "root",
		"ttl":         "87600h",
	})
	requireSuccessNonNilResponse(t, resp, err)

	// An intermediate whose key lives in this mount as well.
	resp, err = CBWrite(b, s, "intermediate/generate/internal", map[string]any{
		"common_name": "int example.com",
		"key_type":    "ec",
	})
	requireSuccessNonNilResponse(t, resp, err)
	csr := resp.Data["csr"].(string)

	resp, err = CBWrite(b, s, "issuer/root/sign-intermediate", map[string]any{
		"csr":         csr,
		"common_name": "int example.com",
		"ttl":         "43800h",
	})
	requireSuccessNonNilResponse(t, resp, err)
	intPEM := resp.Data["certificate"].(string)
	serial := resp.Data["serial_number"].(string)

	// Another, unrelated revocation that must stay untouched.
	_, err = CBWrite(b, s, "roles/r", map[string]any{"allow_any_name": true, "key_type": "ec", "ttl": "1h", "issuer_ref": "root"})
	require.NoError(t, err)
	resp, err = CBWrite(b, s, "issue/r", map[string]any{"common_name": "leaf.example.com"})
	requireSuccessNonNilResponse(t, resp, err)
	leafSerial := resp.Data["serial_number"].(string)
	resp, err = CBWrite(b, s, "revoke", map[string]any{"serial_number": leafSerial})
	requireSuccessNonNilResponse(t, resp, err)

	// Revoke the intermediate certificate by serial: reported successful.
	resp, err = CBWrite(b, s, "revoke", map[string]any{"serial_number": serial})
	requireSuccessNonNilResponse(t, resp, err)
	require.Equal(t, "revoked", resp.Data["state"])

	crl := getParsedCrlFromBackend(t, b, s, "issuer/root/crl/der")
	require.True(t, requireSerialNumberInCRL(nil, crl, serial), "sanity: on the root's CRL right after revoke")
	before := crl.Number

	// Issuer add: the (revoked) intermediate is installed as an issuer.
	resp, err = CBWrite(b, s, "intermediate/set-signed", map[string]any{"certificate": intPEM})
	requireSuccessNonNilResponse(t, resp, err)

	resp, err = CBRead(b, s, "crl/rotate")
	requireSuccessNonNilResponse(t, resp, err)

	// Status API: still revoked.
	resp, err = CBRead(b, s, "cert/"+serial)
	requireSuccessNonNilResponse(t, resp, err)
	require.NotZero(t, resp.Data["revocation_time"], "cert status API must report revoked")

	crl = getParsedCrlFromBackend(t, b, s, "issuer/root/crl/der")
	require.True(t, crl.Number.Cmp(before) > 0, "a new complete CRL was built")
	require.True(t, requireSerialNumberInCRL(nil, crl, leafSerial), "other revocation entry kept")
	if !requireSerialNumberInCRL(nil, crl, serial) {
		t.Fatalf("revoked serial %s (status API: revoked) is missing from the root's complete CRL number %v built after the certificate was imported as an issuer",
			serial, crl.Number)
	}
}
