package pki

import (
	"crypto/x509"
	"encoding/pem"
	"testing"

	"github.com/openbao/openbao/sdk/v2/logical"
)

// The issuer is left at leaf_not_after_behavior=err (the default): "error if
// the computed NotAfter exceeds that of this issuer". issue/<role> honours it,
// cel/issue/<role> (and cel/sign/<role>) do not look at it at all.
func TestHunt_C15_CELIssueIgnoresIssuerLeafNotAfterBehavior(t *testing.T) {
	b, s := CreateBackendWithStorage(t)
	ctx := t.Context()
	do := func(op logical.Operation, path string, data map[string]any) (*logical.Response, error) {
		t.Helper()
		return b.HandleRequest(ctx, &logical.Request{Storage: s, Operation: op, Path: path, Data: data})
	}

	resp, err := do(logical.UpdateOperation, "root/generate/internal", map[string]any{"common_name": "root.com", "ttl": "2h"})
	requireSuccessNonNilResponse(t, resp, err, "root")
	blk, _ := pem.Decode([]byte(resp.Data["certificate"].(string)))
	ca, err := x509.ParseCertificate(blk.Bytes)
	if err != nil {
		t.Fatal(err)
	}
	resp, err = do(logical.ReadOperation, "issuer/default", nil)
	requireSuccessNonNilResponse(t, resp, err, "read issuer")
	if resp.Data["leaf_not_after_behavior"] != "err" {
		t.Fatalf("unexpected default leaf_not_after_behavior %v", resp.Data["leaf_not_after_behavior"])
	}

	// control: a classic role refuses a 100h leaf under the 2h issuer
	resp, err = do(logical.UpdateOperation, "roles/classic", map[string]any{"allow_any_name": true, "max_ttl": "1000h"})
	requireSuccessNonNilResponse(t, resp, err, "role")
	resp, err = do(logical.UpdateOperation, "issue/classic", map[string]any{"common_name": "example.com", "ttl": "100h"})
	if err == nil && (resp == nil || !resp.IsError()) {
		t.Fatalf("control failed: issue/classic accepted a leaf outliving the issuer")
	}
	t.Logf("issue/classic refuses: %v %v", err, resp.Error())

	resp, err = do(logical.UpdateOperation, "cel/roles/r", map[string]any{
		"cel_program": map[string]any{
			"variables": []map[string]any{
				{"name": "cert", "expression": `CertTemplate{
					Subject: PKIX.Name{ CommonName: request.common_name },
					NotBefore: now,
					NotAfter: now + duration(request.ttl),
					DNSNames: [request.common_name],
				}`},
				{"name": "output", "expression": `ValidationOutput{ template: cert, issuer_ref: "default", key_type: "ec", key_bits: uint(256) }`},
			},
			"expression": "output",
		},
	})
	if err != nil || (resp != nil && resp.IsError()) {
		t.Fatalf("cel role: %v %v", err, resp)
	}

	resp, err = do(logical.UpdateOperation, "cel/issue/r", map[string]any{"common_name": "example.com", "ttl": "100h"})
	if err != nil || resp == nil || resp.IsError() {
		t.Logf("cel/issue refused (fine): %v %v", err, resp)
		return
	}
	blk, _ = pem.Decode([]byte(resp.Data["certificate"].(string)))
	leaf, err := x509.ParseCertificate(blk.Bytes)
	if err != nil {
		t.Fatal(err)
	}
	if leaf.NotAfter.After(ca.NotAfter) {
		t.Errorf("cel/issue/r issued a leaf valid until %s under issuer 'default' (leaf_not_after_behavior=err) which expires %s",
			leaf.NotAfter.UTC(), ca.NotAfter.UTC())
	}
}
