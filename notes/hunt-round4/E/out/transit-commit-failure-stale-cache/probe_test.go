package transit

import (
	"context"
	"encoding/base64"
	"errors"
	"testing"

	"github.com/openbao/openbao/sdk/v2/logical"
	"github.com/openbao/openbao/sdk/v2/physical/inmem"
)

// huntTxStorage wraps a transactional logical storage. onPut is called (once
// per transaction Put) from inside the transaction, which lets a test place a
// "concurrent" request at an exact point of the interleaving; failCommit makes
// the next Commit fail as a raft apply error (leadership lost, timeout) would.
type huntTxStorage struct {
	logical.TransactionalStorage
	onPut      func(key string)
	failCommit bool
}

type huntTx struct {
	logical.Transaction
	parent *huntTxStorage
}

func (s *huntTxStorage) BeginTx(ctx context.Context) (logical.Transaction, error) {
	tx, err := s.TransactionalStorage.BeginTx(ctx)
	if err != nil {
		return nil, err
	}
	return &huntTx{Transaction: tx, parent: s}, nil
}

func (t *huntTx) Put(ctx context.Context, e *logical.StorageEntry) error {
	if err := t.Transaction.Put(ctx, e); err != nil {
		return err
	}
	if t.parent.onPut != nil {
		t.parent.onPut(e.Key)
	}
	return nil
}

func (t *huntTx) Commit(ctx context.Context) error {
	if t.parent.failCommit {
		t.parent.failCommit = false
		_ = t.Transaction.Rollback(ctx)
		return errors.New("injected: leadership lost while committing log")
	}
	return t.Transaction.Commit(ctx)
}

func huntNewTxStorage(t *testing.T) *huntTxStorage {
	phys, err := inmem.NewInmem(nil, nil)
	if err != nil {
		t.Fatal(err)
	}
	ls, ok := logical.NewLogicalStorage(phys).(logical.TransactionalStorage)
	if !ok {
		t.Fatal("inmem logical storage is not transactional")
	}
	return &huntTxStorage{TransactionalStorage: ls}
}

// No injected fault at all: an encrypt request that creates its key (upsert)
// reads config/keys inside its transaction; a concurrent write of config/keys
// lands before the commit, the commit is refused as a conflict and the encrypt
// request fails. The key it generated stays in the policy cache although it was
// never stored: later encrypt requests succeed under a key that exists in
// memory only, and after a restart their ciphertexts are lost.
func TestHunt_UpsertCommitConflictLeavesMemoryOnlyKey(t *testing.T) {
	s := huntNewTxStorage(t)
	b := createBackendWithSysViewWithStorage(t, s)
	ctx := t.Context()

	do := func(bk *backend, op logical.Operation, path string, data map[string]any) (*logical.Response, error) {
		t.Helper()
		return bk.HandleRequest(ctx, &logical.Request{Storage: s, Operation: op, Path: path, Data: data})
	}
	pt := base64.StdEncoding.EncodeToString([]byte("the plaintext"))

	// the concurrent request: an operator writes config/keys while request A
	// is between its policy Put and its Commit
	fired := false
	s.onPut = func(key string) {
		if key == "policy/k" && !fired {
			fired = true
			if _, err := do(b, logical.UpdateOperation, "config/keys", map[string]any{"disable_upsert": true}); err != nil {
				t.Errorf("concurrent config/keys write: %v", err)
			}
		}
	}

	// request A: encrypt with upsert
	resp, err := do(b, logical.CreateOperation, "encrypt/k", map[string]any{"plaintext": pt})
	s.onPut = nil
	if !fired {
		t.Fatal("hook did not fire")
	}
	if err == nil {
		t.Fatalf("expected request A to fail at commit, got %v", huntErrOf(resp))
	}
	t.Logf("request A failed: %.120s", err.Error())

	// the key was never stored
	if e, _ := s.Get(ctx, "policy/k"); e != nil {
		t.Fatal("policy/k unexpectedly stored")
	}

	// request B: a plain encrypt on k. The key does not exist in storage, so
	// this must not hand out a ciphertext.
	resp, err = do(b, logical.UpdateOperation, "encrypt/k", map[string]any{"plaintext": pt})
	if err != nil || resp == nil || resp.IsError() {
		t.Logf("request B refused (fine): %v %v", err, huntErrOf(resp))
		return
	}
	ct := resp.Data["ciphertext"].(string)
	t.Errorf("encrypt/k SUCCEEDED with a key that was never stored; ciphertext %s", ct)

	// restart
	b2 := createBackendWithSysViewWithStorage(t, s)
	resp, err = do(b2, logical.UpdateOperation, "decrypt/k", map[string]any{"ciphertext": ct})
	if err != nil || resp == nil || resp.IsError() {
		t.Errorf("after restart the ciphertext cannot be decrypted: err=%v resp=%v", err, huntErrOf(resp))
	}
}

// A commit failure of keys/<name>/config (min_decryption_version raised): the
// handler restores MinDecryptionVersion on the cached policy but Persist has
// already dropped the older versions from the cached key map, so ciphertexts of
// versions that are still inside the window are refused.
func TestHunt_ConfigCommitFailureDropsInWindowVersions(t *testing.T) {
	s := huntNewTxStorage(t)
	b := createBackendWithSysViewWithStorage(t, s)
	ctx := t.Context()
	do := func(bk *backend, op logical.Operation, path string, data map[string]any) (*logical.Response, error) {
		t.Helper()
		return bk.HandleRequest(ctx, &logical.Request{Storage: s, Operation: op, Path: path, Data: data})
	}
	must := func(resp *logical.Response, err error) *logical.Response {
		t.Helper()
		if err != nil || (resp != nil && resp.IsError()) {
			t.Fatalf("unexpected failure: %v %v", err, huntErrOf(resp))
		}
		return resp
	}
	pt := base64.StdEncoding.EncodeToString([]byte("the plaintext"))

	must(do(b, logical.UpdateOperation, "keys/k", nil))
	ct1 := must(do(b, logical.UpdateOperation, "encrypt/k", map[string]any{"plaintext": pt})).Data["ciphertext"].(string)
	must(do(b, logical.UpdateOperation, "keys/k/rotate", nil))
	must(do(b, logical.UpdateOperation, "keys/k/rotate", nil))

	s.failCommit = true
	resp, err := do(b, logical.UpdateOperation, "keys/k/config", map[string]any{"min_decryption_version": 3})
	if err == nil {
		t.Fatalf("config should have failed at commit: %v", huntErrOf(resp))
	}
	t.Logf("config failed: %v", err)

	r := must(do(b, logical.ReadOperation, "keys/k", nil))
	t.Logf("after the failed config: min_decryption_version=%v latest_version=%v", r.Data["min_decryption_version"], r.Data["latest_version"])
	if r.Data["min_decryption_version"].(int) != 1 {
		t.Errorf("min_decryption_version = %v, want 1", r.Data["min_decryption_version"])
	}

	resp, err = do(b, logical.UpdateOperation, "decrypt/k", map[string]any{"ciphertext": ct1})
	if err != nil || resp == nil || resp.IsError() {
		t.Errorf("v1 ciphertext refused although min_decryption_version is (still) 1: err=%v resp=%v", err, huntErrOf(resp))
	}
}

// A commit failure of keys/<name>/rotate: the new version stays in the cache.
func TestHunt_RotateCommitFailureLeavesVersionInCache(t *testing.T) {
	s := huntNewTxStorage(t)
	b := createBackendWithSysViewWithStorage(t, s)
	ctx := t.Context()
	do := func(bk *backend, op logical.Operation, path string, data map[string]any) (*logical.Response, error) {
		t.Helper()
		return bk.HandleRequest(ctx, &logical.Request{Storage: s, Operation: op, Path: path, Data: data})
	}
	pt := base64.StdEncoding.EncodeToString([]byte("the plaintext"))

	if _, err := do(b, logical.UpdateOperation, "keys/k", nil); err != nil {
		t.Fatal(err)
	}
	s.failCommit = true
	if _, err := do(b, logical.UpdateOperation, "keys/k/rotate", nil); err == nil {
		t.Fatal("rotate should have failed at commit")
	}
	resp, err := do(b, logical.UpdateOperation, "encrypt/k", map[string]any{"plaintext": pt})
	if err != nil || resp.IsError() {
		t.Fatalf("encrypt: %v", err)
	}
	ct := resp.Data["ciphertext"].(string)
	if kv := resp.Data["key_version"].(int); kv != 1 {
		t.Errorf("after a FAILED rotate encrypt used key_version %d (%s), want 1", kv, ct)
	}
	b2 := createBackendWithSysViewWithStorage(t, s)
	resp, err = do(b2, logical.UpdateOperation, "decrypt/k", map[string]any{"ciphertext": ct})
	if err != nil || resp == nil || resp.IsError() {
		t.Errorf("after restart the ciphertext cannot be decrypted: err=%v resp=%v", err, huntErrOf(resp))
	}
}

func huntErrOf(r *logical.Response) any {
	if r == nil {
		return nil
	}
	if r.IsError() {
		return r.Error()
	}
	return r.Data
}
