package pki

import (
	"context"
	"errors"
	"strings"
	"sync"
	"testing"

	"github.com/openbao/openbao/sdk/v2/logical"
	"github.com/stretchr/testify/require"
)

// huntFaultStorage fails Puts whose key has the armed prefix (n times).
type huntFaultStorage struct {
	logical.Storage
	mu     sync.Mutex
	prefix string
	left   int
	puts   []string
}

func (f *huntFaultStorage) arm(prefix string, n int) {
	f.mu.Lock()
	defer f.mu.Unlock()
	f.prefix, f.left = prefix, n
}

func (f *huntFaultStorage) Put(ctx context.Context, e *logical.StorageEntry) error {
	f.mu.Lock()
	if f.left > 0 && strings.HasPrefix(e.Key, f.prefix) {
		f.left--
		f.mu.Unlock()
		return errors.New("hunt: injected storage failure on " + e.Key)
	}
	f.puts = append(f.puts, e.Key)
	f.mu.Unlock()
	return f.Storage.Put(ctx, e)
}

// config/crl persists the new configuration first and rebuilds the CRL
// afterwards, and only when the *stored* configuration differed from the
// request. If the rebuild fails, the retry of the very same request finds the
// configuration already switched, skips the rebuild and reports success: the
// mount then runs with auto_rebuild=false while the served CRL lacks serials
// whose revocation was reported successful long before.
func TestHunt_C16_ConfigCRLRetrySkipsRebuild(t *testing.T) {
	t.Parallel()
	b, inner := CreateBackendWithStorage(t)
	s := &huntFaultStorage{Storage: inner}

	resp, err := CBWrite(b, s, "root/generate/internal", map[string]any{
		"common_name": "root example.com", "key_type": "ec", "issuer_name": "root",
	})
	requireSuccessNonNilResponse(t, resp, err)
	_, err = CBWrite(b, s, "roles/r", map[string]any{"allow_any_name": true, "key_type": "ec", "ttl": "1h"})
	require.NoError(t, err)

	// Auto-rebuild on: revocations do not rebuild the CRL immediately.
	_, err = CBWrite(b, s, "config/crl", map[string]any{"auto_rebuild": true})
	require.NoError(t, err)

	resp, err = CBWrite(b, s, "issue/r", map[string]any{"common_name": "leaf.example.com"})
	requireSuccessNonNilResponse(t, resp, err)
	serial := resp.Data["serial_number"].(string)
	resp, err = CBWrite(b, s, "revoke", map[string]any{"serial_number": serial})
	requireSuccessNonNilResponse(t, resp, err)
	require.Equal(t, "revoked", resp.Data["state"])

	// Operator turns auto-rebuild off; the CRL write of the rebuild fails.
	s.arm("crls/", 1)
	_, err = CBWrite(b, s, "config/crl", map[string]any{"auto_rebuild": false})
	require.Error(t, err, "first attempt must surface the storage failure")

	// Storage is healthy again; the operator retries the same request.
	resp, err = CBWrite(b, s, "config/crl", map[string]any{"auto_rebuild": false})
	requireSuccessNonNilResponse(t, resp, err)
	require.Equal(t, false, resp.Data["auto_rebuild"])

	// auto_rebuild is off, the revoke call returned long ago, the config
	// switch was reported successful: the served CRL must list the serial.
	crl := getParsedCrlFromBackend(t, b, s, "issuer/root/crl/der")
	if !requireSerialNumberInCRL(nil, crl, serial) {
		t.Fatalf("auto_rebuild=false reported successfully, but the served CRL (number %v, %d entries) lacks revoked serial %s",
			crl.Number, len(crl.RevokedCertificateEntries), serial)
	}
}
