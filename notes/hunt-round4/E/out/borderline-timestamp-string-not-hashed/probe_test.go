package audit

import (
	"bytes"
	"context"
	"strings"
	"testing"

	"github.com/openbao/openbao/sdk/v2/helper/salt"
	"github.com/openbao/openbao/sdk/v2/logical"
	"github.com/openbao/openbao/v2/internal/helper/namespace"
)

// C11 (borderline): every string value inside request / response data is
// replaced by its salted HMAC unless the mount exempts the key. The hash
// walker leaves every string that parses as an RFC 3339 timestamp in the
// clear - also strings supplied by the client in a JSON request body (e.g. a
// KV secret {"date_of_birth": "1980-02-03T04:05:06Z"}), which never were
// time.Time values.
func TestHunt_C11_TimestampLookingStringNotHashed(t *testing.T) {
	s, err := salt.NewSalt(context.Background(), nil, nil)
	if err != nil {
		t.Fatal(err)
	}
	f := &AuditFormatter{AuditFormatWriter: &JSONFormatWriter{
		SaltFunc: func(context.Context) (*salt.Salt, error) { return s, nil },
	}}
	ctx := namespace.RootContext(context.Background())

	// what http.parseJSONRequest hands to core for
	//   PUT /v1/secret/person {"date_of_birth":"1980-02-03T04:05:06Z","nested":{"l":["1980-02-03T04:05:06+01:00"]},"pin":"1234"}
	req := &logical.Request{
		Operation: logical.UpdateOperation,
		Path:      "secret/person",
		Data: map[string]any{
			"date_of_birth": "1980-02-03T04:05:06Z",
			"nested":        map[string]any{"l": []any{"1980-02-03T04:05:06+01:00"}},
			"pin":           "1234",
		},
	}
	var buf bytes.Buffer
	if err := f.FormatRequest(ctx, &buf, FormatterConfig{HMACAccessor: true}, &logical.LogInput{Request: req}); err != nil {
		t.Fatal(err)
	}
	// the same data coming back from a read of the KV mount
	if err := f.FormatResponse(ctx, &buf, FormatterConfig{HMACAccessor: true}, &logical.LogInput{
		Request:  &logical.Request{Operation: logical.ReadOperation, Path: "secret/person"},
		Response: &logical.Response{Data: req.Data},
	}); err != nil {
		t.Fatal(err)
	}
	out := buf.String()
	t.Log(out)
	if strings.Contains(out, "1234") {
		t.Errorf("pin in the clear")
	}
	if strings.Contains(out, "1980-02-03T04:05:06") {
		t.Errorf("client-supplied string values were written to the audit entries in the clear")
	}
}
