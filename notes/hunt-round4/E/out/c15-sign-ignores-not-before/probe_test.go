package pki

import (
	"crypto/ecdsa"
	"crypto/elliptic"
	"crypto/rand"
	"crypto/x509"
	"crypto/x509/pkix"
	"encoding/pem"
	"testing"
	"time"

	"github.com/stretchr/testify/require"
)

func huntCSR(t *testing.T, cn string) string {
	t.Helper()
	key, err := ecdsa.GenerateKey(elliptic.P256(), rand.Reader)
	require.NoError(t, err)
	der, err := x509.CreateCertificateRequest(rand.Reader, &x509.CertificateRequest{
		Subject: pkix.Name{CommonName: cn},
	}, key)
	require.NoError(t, err)
	return string(pem.EncodeToMemory(&pem.Block{Type: "CERTIFICATE REQUEST", Bytes: der}))
}

// A role pins the start of validity (not_before) of everything issued through
// it. issue/<role> honours it, sign/<role> silently hands out a certificate
// that is valid from now on.
func TestHunt_C15_SignIgnoresRoleNotBefore(t *testing.T) {
	t.Parallel()
	b, s := CreateBackendWithStorage(t)

	resp, err := CBWrite(b, s, "root/generate/internal", map[string]any{
		"common_name": "root example.com", "key_type": "ec", "not_after": "9999-12-31T23:59:59Z",
	})
	requireSuccessNonNilResponse(t, resp, err)

	start := time.Now().Add(12 * time.Hour).UTC().Truncate(time.Second)
	_, err = CBWrite(b, s, "roles/embargo", map[string]any{
		"allow_any_name":   true,
		"key_type":         "ec",
		"not_before":       start.Format(time.RFC3339),
		"not_before_bound": "forbid",
		"ttl":              "24h",
		"max_ttl":          "24h",
	})
	require.NoError(t, err)

	// issue/<role>: the role's not_before is applied.
	resp, err = CBWrite(b, s, "issue/embargo", map[string]any{"common_name": "a.example.com"})
	requireSuccessNonNilResponse(t, resp, err)
	issued := parseCert(t, resp.Data["certificate"].(string))
	require.True(t, issued.NotBefore.Equal(start), "issue/<role> honours the role's not_before: %v", issued.NotBefore)

	// sign/<role>: same role, same constraint.
	resp, err = CBWrite(b, s, "sign/embargo", map[string]any{
		"common_name": "a.example.com",
		"csr":         huntCSR(t, "a.example.com"),
	})
	requireSuccessNonNilResponse(t, resp, err)
	signed := parseCert(t, resp.Data["certificate"].(string))
	if !signed.NotBefore.Equal(start) {
		t.Fatalf("sign/<role> ignored the role's not_before: certificate valid from %v, role says %v (certificate usable %v earlier than the role permits)",
			signed.NotBefore.UTC(), start, start.Sub(signed.NotBefore).Round(time.Hour))
	}
}

// The request parameter not_before is declared and documented for
// sign-verbatim (and sign-intermediate); it is accepted and dropped.
func TestHunt_C15_SignVerbatimIgnoresNotBefore(t *testing.T) {
	t.Parallel()
	b, s := CreateBackendWithStorage(t)

	resp, err := CBWrite(b, s, "root/generate/internal", map[string]any{
		"common_name": "root example.com", "key_type": "ec", "not_after": "9999-12-31T23:59:59Z",
	})
	requireSuccessNonNilResponse(t, resp, err)

	start := time.Now().Add(12 * time.Hour).UTC().Truncate(time.Second)
	resp, err = CBWrite(b, s, "sign-verbatim", map[string]any{
		"csr":        huntCSR(t, "a.example.com"),
		"not_before": start.Format(time.RFC3339),
		"ttl":        "24h",
	})
	requireSuccessNonNilResponse(t, resp, err)
	signed := parseCert(t, resp.Data["certificate"].(string))
	if !signed.NotBefore.Equal(start) {
		t.Fatalf("sign-verbatim ignored not_before=%v: certificate valid from %v", start, signed.NotBefore.UTC())
	}
}
