package vault

import (
	"context"
	"testing"

	"github.com/openbao/openbao/sdk/v2/logical"
	"github.com/openbao/openbao/v2/internal/helper/namespace"
)

// auth/token/revoke-orphan reached through a child namespace's path for a
// token of the root namespace: whatever the answer is, a reported success
// must mean the token is revoked.
func TestHunt_RevokeOrphanThroughChildNamespace(t *testing.T) {
	c, _, root := TestCoreUnsealed(t)
	ns1 := &namespace.Namespace{Path: "ns1/"}
	TestCoreCreateNamespaces(t, c, ns1)

	resp := huntOKC(t, c, logical.UpdateOperation, "auth/token/create", root, map[string]any{
		"policies": []string{"default"}, "ttl": "1h",
	})
	tok := resp.Auth.ClientToken
	huntOKC(t, c, logical.UpdateOperation, "cubbyhole/x", tok, map[string]any{"v": "1"})

	// control: plain revoke through the same namespace path is honoured
	resp2 := huntOKC(t, c, logical.UpdateOperation, "auth/token/create", root, map[string]any{
		"policies": []string{"default"}, "ttl": "1h",
	})
	tok2 := resp2.Auth.ClientToken
	huntOKC(t, c, logical.UpdateOperation, "ns1/auth/token/revoke", root, map[string]any{"token": tok2})
	if r, err := huntReqC(t, c, logical.ReadOperation, "auth/token/lookup-self", tok2, nil); err == nil {
		t.Fatalf("control: token revoked through ns1/auth/token/revoke still works: %#v", r)
	}

	r, err := huntReqC(t, c, logical.UpdateOperation, "ns1/auth/token/revoke-orphan", root, map[string]any{"token": tok})
	if err != nil || (r != nil && r.IsError()) {
		t.Logf("revoke-orphan refused: err=%v resp=%#v (acceptable)", err, r)
		return
	}
	t.Logf("revoke-orphan through ns1 reported success: resp=%#v", r)

	if r, err := huntReqC(t, c, logical.ReadOperation, "cubbyhole/x", tok, nil); err == nil && r != nil && !r.IsError() {
		t.Fatalf("revoke-orphan reported success, but the token is still accepted and reads its cubbyhole: %v", r.Data)
	}
}

// ---- helpers (self-contained copy) ----

// huntReqC sends a request through the real Core.HandleRequest in the root
// context (namespace comes from the path prefix, as over HTTP).
func huntReqC(t *testing.T, c *Core, op logical.Operation, path, token string, data map[string]any) (*logical.Response, error) {
	t.Helper()
	req := &logical.Request{
		Operation:   op,
		Path:        path,
		ClientToken: token,
		Data:        data,
		Connection:  &logical.Connection{RemoteAddr: "127.0.0.1"},
	}
	return c.HandleRequest(namespace.RootContext(context.Background()), req)
}

func huntMustC(t *testing.T, resp *logical.Response, err error) *logical.Response {
	t.Helper()
	if err != nil {
		t.Fatalf("unexpected error: %v (resp=%#v)", err, resp)
	}
	if resp != nil && resp.IsError() {
		t.Fatalf("unexpected error response: %v", resp.Error())
	}
	return resp
}

// huntOKC = huntReqC + huntMustC
func huntOKC(t *testing.T, c *Core, op logical.Operation, path, token string, data map[string]any) *logical.Response {
	t.Helper()
	resp, err := huntReqC(t, c, op, path, token, data)
	return huntMustC(t, resp, err)
}
