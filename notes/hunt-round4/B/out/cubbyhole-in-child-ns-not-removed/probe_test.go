package vault

import (
	"context"
	"testing"

	"github.com/openbao/openbao/sdk/v2/logical"
	"github.com/openbao/openbao/v2/internal/helper/namespace"
	"github.com/openbao/openbao/v2/internal/vault/barrier"
	"github.com/openbao/openbao/v2/internal/vault/routing"
)

// A root-namespace token writes into the cubbyhole mount of a child
// namespace. After the token is revoked, its cubbyhole contents must be gone.
func TestHunt_CubbyholeInChildNamespace_RemovedOnRevoke(t *testing.T) {
	c, _, root := TestCoreUnsealed(t)
	ns1 := &namespace.Namespace{Path: "ns1/"}
	TestCoreCreateNamespaces(t, c, ns1)

	huntOKF(t, c, logical.UpdateOperation, "sys/policy/reach", root, map[string]any{
		"policy": `path "ns1/cubbyhole/*" { capabilities = ["create","update","read","list"] }`,
	})
	resp := huntOKF(t, c, logical.UpdateOperation, "auth/token/create", root, map[string]any{
		"policies": []string{"default", "reach"}, "ttl": "1h",
	})
	tok := resp.Auth.ClientToken

	huntOKF(t, c, logical.UpdateOperation, "cubbyhole/a", tok, map[string]any{"v": "root-ns"})
	huntOKF(t, c, logical.UpdateOperation, "ns1/cubbyhole/b", tok, map[string]any{"v": "child-ns"})

	count := func(ns *namespace.Namespace) []string {
		ctx := namespace.ContextWithNamespace(context.Background(), ns)
		view := c.router.MatchingStorageByAPIPath(ctx, routing.MountPathCubbyhole).(barrier.View)
		keys, err := logical.CollectKeys(ctx, view)
		if err != nil {
			t.Fatal(err)
		}
		return keys
	}
	if len(count(namespace.RootNamespace)) != 1 || len(count(ns1)) != 1 {
		t.Fatalf("premise: root=%v ns1=%v", count(namespace.RootNamespace), count(ns1))
	}

	huntOKF(t, c, logical.UpdateOperation, "auth/token/revoke", root, map[string]any{"token": tok})

	if k := count(namespace.RootNamespace); len(k) != 0 {
		t.Fatalf("root cubbyhole not cleared: %v", k)
	}
	if k := count(ns1); len(k) != 0 {
		t.Fatalf("token revoked, but its cubbyhole data in ns1 is still stored: %v", k)
	}
}

// ---- helpers (self-contained copy) ----

// huntReqF sends a request through the real Core.HandleRequest in the root
// context (namespace comes from the path prefix, as over HTTP).
func huntReqF(t *testing.T, c *Core, op logical.Operation, path, token string, data map[string]any) (*logical.Response, error) {
	t.Helper()
	req := &logical.Request{
		Operation:   op,
		Path:        path,
		ClientToken: token,
		Data:        data,
		Connection:  &logical.Connection{RemoteAddr: "127.0.0.1"},
	}
	return c.HandleRequest(namespace.RootContext(context.Background()), req)
}

func huntMustF(t *testing.T, resp *logical.Response, err error) *logical.Response {
	t.Helper()
	if err != nil {
		t.Fatalf("unexpected error: %v (resp=%#v)", err, resp)
	}
	if resp != nil && resp.IsError() {
		t.Fatalf("unexpected error response: %v", resp.Error())
	}
	return resp
}

// huntOKF = huntReqF + huntMustF
func huntOKF(t *testing.T, c *Core, op logical.Operation, path, token string, data map[string]any) *logical.Response {
	t.Helper()
	resp, err := huntReqF(t, c, op, path, token, data)
	return huntMustF(t, resp, err)
}
