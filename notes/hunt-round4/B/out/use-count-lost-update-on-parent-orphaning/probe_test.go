package vault

import (
	"context"
	"strings"
	"sync"
	"testing"
	"time"

	"github.com/openbao/openbao/sdk/v2/logical"
	"github.com/openbao/openbao/sdk/v2/physical"
	physInmem "github.com/openbao/openbao/sdk/v2/physical/inmem"
	"github.com/openbao/openbao/v2/internal/helper/namespace"
	"github.com/openbao/openbao/v2/internal/helper/testhelpers/corehelpers"
)

// huntGetGate parks the first Get of a key containing `match` (after arm())
// right AFTER the value was read from the backend, until release() is called.
type huntGetGate struct {
	physical.Backend
	mu      sync.Mutex
	match   string
	armed   bool
	reached chan struct{}
	resume  chan struct{}
}

func (g *huntGetGate) arm(match string) {
	g.mu.Lock()
	defer g.mu.Unlock()
	g.match, g.armed = match, true
	g.reached, g.resume = make(chan struct{}), make(chan struct{})
}

func (g *huntGetGate) Get(ctx context.Context, key string) (*physical.Entry, error) {
	e, err := g.Backend.Get(ctx, key)
	g.mu.Lock()
	hit := g.armed && strings.Contains(key, g.match)
	if hit {
		g.armed = false
	}
	reached, resume := g.reached, g.resume
	g.mu.Unlock()
	if hit {
		close(reached)
		<-resume
	}
	return e, err
}

// A token with num_uses=3 is the child of P. While P is being revoked with
// auth/token/revoke-orphan (which re-writes every child entry with Parent=""),
// the child makes one request. The orphaning loop of revokeInternal read the
// child entry before that request and writes the whole stale entry back
// afterwards, so the use is forgotten: the token authorises 4 requests.
func TestHunt_UseCountLostUpdate_RevokeOrphanOfParent(t *testing.T) {
	logger := corehelpers.NewTestLogger(t)
	inm, err := physInmem.NewInmem(nil, logger)
	if err != nil {
		t.Fatal(err)
	}
	gate := &huntGetGate{Backend: inm}
	conf := testCoreConfig(t, gate, logger)
	conf.DisableCache = true
	c, err := NewCore(conf)
	if err != nil {
		t.Fatal(err)
	}
	t.Cleanup(func() { _ = c.ShutdownWait() })
	_, _, root := testCoreUnsealed(t, c)

	huntOKD(t, c, logical.UpdateOperation, "sys/policy/mk", root, map[string]any{
		"policy": `path "auth/token/create" { capabilities = ["update"] }`,
	})
	resp := huntOKD(t, c, logical.UpdateOperation, "auth/token/create", root, map[string]any{
		"policies": []string{"default", "mk"}, "ttl": "2h",
	})
	parent := resp.Auth.ClientToken

	const n = 3
	resp = huntOKD(t, c, logical.UpdateOperation, "auth/token/create", parent, map[string]any{
		"policies": []string{"default"}, "ttl": "1h", "num_uses": n,
	})
	child := resp.Auth.ClientToken
	childInner, err := c.DecodeSSCToken(child)
	if err != nil {
		t.Fatal(err)
	}
	salted, err := c.tokenStore.SaltID(namespace.RootContext(context.Background()), childInner)
	if err != nil {
		t.Fatal(err)
	}

	// revoke-orphan the parent; park it right after it has read the child's entry
	gate.arm("/id/" + salted)
	done := make(chan error, 1)
	go func() {
		r, err := huntReqD(t, c, logical.UpdateOperation, "auth/token/revoke-orphan", root, map[string]any{"token": parent})
		if err == nil && r != nil && r.IsError() {
			err = r.Error()
		}
		done <- err
	}()
	select {
	case <-gate.reached:
	case err := <-done:
		t.Fatalf("revoke-orphan finished without reading the child entry: %v", err)
	case <-time.After(10 * time.Second):
		t.Fatal("gate not reached")
	}

	uses := 0
	// use #1 happens while the revocation of the parent is in flight
	r, err := huntReqD(t, c, logical.ReadOperation, "auth/token/lookup-self", child, nil)
	if err != nil || r == nil || r.IsError() {
		t.Fatalf("first use failed: %v %#v", err, r)
	}
	uses++
	t.Logf("use %d ok, num_uses now %v", uses, r.Data["num_uses"])

	close(gate.resume)
	if err := <-done; err != nil {
		t.Fatalf("revoke-orphan failed: %v", err)
	}

	for i := 0; i < n+2; i++ {
		r, err := huntReqD(t, c, logical.ReadOperation, "auth/token/lookup-self", child, nil)
		if err != nil || r == nil || r.IsError() {
			break
		}
		uses++
		t.Logf("use %d ok, num_uses now %v", uses, r.Data["num_uses"])
	}
	if uses > n {
		t.Fatalf("token created with num_uses=%d authorised %d requests", n, uses)
	}
}

// ---- helpers (self-contained copy) ----

// huntReqD sends a request through the real Core.HandleRequest in the root
// context (namespace comes from the path prefix, as over HTTP).
func huntReqD(t *testing.T, c *Core, op logical.Operation, path, token string, data map[string]any) (*logical.Response, error) {
	t.Helper()
	req := &logical.Request{
		Operation:   op,
		Path:        path,
		ClientToken: token,
		Data:        data,
		Connection:  &logical.Connection{RemoteAddr: "127.0.0.1"},
	}
	return c.HandleRequest(namespace.RootContext(context.Background()), req)
}

func huntMustD(t *testing.T, resp *logical.Response, err error) *logical.Response {
	t.Helper()
	if err != nil {
		t.Fatalf("unexpected error: %v (resp=%#v)", err, resp)
	}
	if resp != nil && resp.IsError() {
		t.Fatalf("unexpected error response: %v", resp.Error())
	}
	return resp
}

// huntOKD = huntReqD + huntMustD
func huntOKD(t *testing.T, c *Core, op logical.Operation, path, token string, data map[string]any) *logical.Response {
	t.Helper()
	resp, err := huntReqD(t, c, op, path, token, data)
	return huntMustD(t, resp, err)
}
