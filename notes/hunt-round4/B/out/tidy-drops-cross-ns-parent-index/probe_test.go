package vault

import (
	"context"
	"testing"
	"time"

	"github.com/openbao/openbao/sdk/v2/logical"
	"github.com/openbao/openbao/v2/internal/helper/namespace"
)

// P is a token of the root namespace; C is its (non-orphan) child created in
// namespace ns1. Revoking P must revoke C. That holds -- until somebody runs
// auth/token/tidy in the root namespace.
func huntTidyCrossNS(t *testing.T, runTidy bool) {
	c, _, root := TestCoreUnsealed(t)
	ns1 := &namespace.Namespace{Path: "ns1/"}
	TestCoreCreateNamespaces(t, c, ns1)

	resp := huntOKB(t, c, logical.UpdateOperation, "auth/token/create", root, map[string]any{
		"policies": []string{"root"}, "ttl": "2h",
	})
	parent := resp.Auth.ClientToken

	resp = huntOKB(t, c, logical.UpdateOperation, "ns1/auth/token/create", parent, map[string]any{
		"policies": []string{"default"}, "ttl": "1h",
	})
	child := resp.Auth.ClientToken
	if resp.Auth.Orphan {
		t.Fatalf("child is an orphan; test premise broken")
	}
	r := huntOKB(t, c, logical.ReadOperation, "ns1/auth/token/lookup-self", child, nil)
	if r.Data["orphan"].(bool) {
		t.Fatalf("child is an orphan; test premise broken")
	}

	if runTidy {
		huntOKB(t, c, logical.UpdateOperation, "auth/token/tidy", root, nil)
		// tidy runs in a goroutine holding tidyLock
		time.Sleep(100 * time.Millisecond)
		c.tokenStore.tidyLock.Lock()
		c.tokenStore.tidyLock.Unlock() //nolint
		// the child is still fine and still claims a parent
		r = huntOKB(t, c, logical.ReadOperation, "ns1/auth/token/lookup-self", child, nil)
		if r.Data["orphan"].(bool) {
			t.Fatalf("tidy orphaned the child")
		}
	}

	huntOKB(t, c, logical.UpdateOperation, "auth/token/revoke", root, map[string]any{"token": parent})
	if _, err := huntReqB(t, c, logical.ReadOperation, "auth/token/lookup-self", parent, nil); err == nil {
		t.Fatalf("parent not revoked")
	}

	r, err := huntReqB(t, c, logical.ReadOperation, "ns1/auth/token/lookup-self", child, nil)
	if err == nil && r != nil && !r.IsError() {
		t.Fatalf("parent token revoked (tree revocation), but its non-orphan child in ns1 is still accepted: orphan=%v ttl=%v", r.Data["orphan"], r.Data["ttl"])
	}
}

func TestHunt_TidyCrossNS_Control_NoTidy(t *testing.T) { huntTidyCrossNS(t, false) }
func TestHunt_TidyCrossNS_AfterTidy(t *testing.T)       { huntTidyCrossNS(t, true) }

// ---- helpers (self-contained copy) ----

// huntReqB sends a request through the real Core.HandleRequest in the root
// context (namespace comes from the path prefix, as over HTTP).
func huntReqB(t *testing.T, c *Core, op logical.Operation, path, token string, data map[string]any) (*logical.Response, error) {
	t.Helper()
	req := &logical.Request{
		Operation:   op,
		Path:        path,
		ClientToken: token,
		Data:        data,
		Connection:  &logical.Connection{RemoteAddr: "127.0.0.1"},
	}
	return c.HandleRequest(namespace.RootContext(context.Background()), req)
}

func huntMustB(t *testing.T, resp *logical.Response, err error) *logical.Response {
	t.Helper()
	if err != nil {
		t.Fatalf("unexpected error: %v (resp=%#v)", err, resp)
	}
	if resp != nil && resp.IsError() {
		t.Fatalf("unexpected error response: %v", resp.Error())
	}
	return resp
}

// huntOKB = huntReqB + huntMustB
func huntOKB(t *testing.T, c *Core, op logical.Operation, path, token string, data map[string]any) *logical.Response {
	t.Helper()
	resp, err := huntReqB(t, c, op, path, token, data)
	return huntMustB(t, resp, err)
}
