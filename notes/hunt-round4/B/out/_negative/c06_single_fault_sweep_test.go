package vault

import (
	"context"
	"errors"
	"sort"
	"strings"
	"sync"
	"testing"
	"fmt"

	"github.com/openbao/openbao/sdk/v2/logical"
	"github.com/openbao/openbao/sdk/v2/physical"
	physInmem "github.com/openbao/openbao/sdk/v2/physical/inmem"
	"github.com/openbao/openbao/v2/internal/helper/namespace"
	"github.com/openbao/openbao/v2/internal/helper/testhelpers/corehelpers"
)

type huntFault struct {
	physical.Backend
	mu     sync.Mutex
	armed  bool
	n      int // ops seen since arm
	failAt int // 1-based; 0 = never
	log    []string
}

func (f *huntFault) step(op, key string) error {
	f.mu.Lock()
	defer f.mu.Unlock()
	if !f.armed {
		return nil
	}
	f.n++
	f.log = append(f.log, fmt.Sprintf("%d:%s %s", f.n, op, key))
	if f.n == f.failAt {
		f.log[len(f.log)-1] += "  <-- FAIL"
		return errors.New("injected fault")
	}
	return nil
}
func (f *huntFault) Put(ctx context.Context, e *physical.Entry) error {
	if err := f.step("PUT", e.Key); err != nil {
		return err
	}
	return f.Backend.Put(ctx, e)
}
func (f *huntFault) Get(ctx context.Context, k string) (*physical.Entry, error) {
	if err := f.step("GET", k); err != nil {
		return nil, err
	}
	return f.Backend.Get(ctx, k)
}
func (f *huntFault) Delete(ctx context.Context, k string) error {
	if err := f.step("DEL", k); err != nil {
		return err
	}
	return f.Backend.Delete(ctx, k)
}
func (f *huntFault) List(ctx context.Context, p string) ([]string, error) {
	if err := f.step("LIST", p); err != nil {
		return nil, err
	}
	return f.Backend.List(ctx, p)
}
func (f *huntFault) ListPage(ctx context.Context, p, a string, l int) ([]string, error) {
	if err := f.step("LISTP", p); err != nil {
		return nil, err
	}
	return f.Backend.ListPage(ctx, p, a, l)
}

func huntAllKeys(t *testing.T, b physical.Backend, prefix string, out *[]string) {
	ks, err := b.List(context.Background(), prefix)
	if err != nil {
		t.Fatal(err)
	}
	for _, k := range ks {
		if strings.HasSuffix(k, "/") {
			huntAllKeys(t, b, prefix+k, out)
		} else {
			*out = append(*out, prefix+k)
		}
	}
}

func huntDiff(before, after []string) (added []string) {
	m := map[string]bool{}
	for _, k := range before {
		m[k] = true
	}
	for _, k := range after {
		if !m[k] {
			added = append(added, k)
		}
	}
	sort.Strings(added)
	return
}

func huntFaultCore(t *testing.T) (*Core, *huntFault, physical.Backend, string) {
	logger := corehelpers.NewTestLogger(t)
	inm, err := physInmem.NewInmem(nil, logger)
	if err != nil {
		t.Fatal(err)
	}
	f := &huntFault{Backend: inm}
	conf := testCoreConfig(t, f, logger)
	conf.DisableCache = true
	c, err := NewCore(conf)
	if err != nil {
		t.Fatal(err)
	}
	t.Cleanup(func() { _ = c.ShutdownWait() })
	_, _, root := testCoreUnsealed(t, c)
	return c, f, inm, root
}

func TestHuntSweep_ChildTokenCreate(t *testing.T) {
	c, f, inm, root := huntFaultCore(t)
	ctx := namespace.RootContext(context.Background())
	// warm
	if _, err := c.HandleRequest(ctx, &logical.Request{Operation: logical.UpdateOperation, Path: "auth/token/create", ClientToken: root, Data: map[string]any{"policies": []string{"default"}, "ttl": "1h"}, Connection: &logical.Connection{RemoteAddr: "127.0.0.1"}}); err != nil {
		t.Fatal(err)
	}
	for k := 1; k < 60; k++ {
		var before, after []string
		// re-warm caches (a failed run may have dropped the policy cache)
		if _, err := c.HandleRequest(ctx, &logical.Request{Operation: logical.UpdateOperation, Path: "auth/token/create", ClientToken: root, Data: map[string]any{"policies": []string{"default"}, "ttl": "1h"}, Connection: &logical.Connection{RemoteAddr: "127.0.0.1"}}); err != nil {
			t.Fatal(err)
		}
		huntAllKeys(t, inm, "", &before)
		id := fmt.Sprintf("custom%d", k)
		f.mu.Lock()
		f.armed, f.n, f.failAt, f.log = true, 0, k, nil
		f.mu.Unlock()
		resp, err := c.HandleRequest(ctx, &logical.Request{Operation: logical.UpdateOperation, Path: "auth/token/create", ClientToken: root, Data: map[string]any{"policies": []string{"default"}, "ttl": "1h", "id": id}, Connection: &logical.Connection{RemoteAddr: "127.0.0.1"}})
		f.mu.Lock()
		f.armed = false
		n := f.n
		log := f.log
		f.mu.Unlock()
		huntAllKeys(t, inm, "", &after)
		added := huntDiff(before, after)
		failed := err != nil || (resp != nil && resp.IsError())
		if n < k {
			t.Logf("k=%d beyond op count %d; done", k, n)
			break
		}
		t.Logf("k=%d failed=%v op=%q added=%v", k, failed, log[k-1], added)
		if failed {
			// token must not be usable
			r, err2 := c.HandleRequest(ctx, &logical.Request{Operation: logical.ReadOperation, Path: "auth/token/lookup-self", ClientToken: id, Connection: &logical.Connection{RemoteAddr: "127.0.0.1"}})
			if err2 == nil && r != nil && !r.IsError() {
				t.Errorf("k=%d: creation failed (%v) but token %s usable; log:\n%s", k, err, id, strings.Join(log, "\n"))
			}
			for _, a := range added {
				if strings.Contains(a, "sys/token/id/") || strings.Contains(a, "sys/expire/id/") {
					t.Errorf("k=%d: creation failed but record left: %s\nlog:\n%s", k, a, strings.Join(log, "\n"))
				}
			}
		}
	}
}

func TestHuntSweep_LeasedSecret(t *testing.T) {
	c, f, inm, root := huntFaultCore(t)
	ctx := namespace.RootContext(context.Background())
	do := func(op logical.Operation, path, tok string, data map[string]any) (*logical.Response, error) {
		return c.HandleRequest(ctx, &logical.Request{Operation: op, Path: path, ClientToken: tok, Data: data, Connection: &logical.Connection{RemoteAddr: "127.0.0.1"}})
	}
	if _, err := do(logical.UpdateOperation, "sys/mounts/leased", root, map[string]any{"type": "kv"}); err != nil {
		t.Fatal(err)
	}
	if _, err := do(logical.UpdateOperation, "leased/foo", root, map[string]any{"v": "1", "lease": "1h"}); err != nil {
		t.Fatal(err)
	}
	r, err := do(logical.UpdateOperation, "auth/token/create", root, map[string]any{"policies": []string{"root"}, "ttl": "1h"})
	if err != nil {
		t.Fatal(err)
	}
	tok := r.Auth.ClientToken
	if _, err := do(logical.ReadOperation, "leased/foo", tok, nil); err != nil {
		t.Fatal(err)
	}
	for k := 1; k < 60; k++ {
		var before, after []string
		huntAllKeys(t, inm, "", &before)
		f.mu.Lock()
		f.armed, f.n, f.failAt, f.log = true, 0, k, nil
		f.mu.Unlock()
		resp, err := do(logical.ReadOperation, "leased/foo", tok, nil)
		f.mu.Lock()
		f.armed = false
		n := f.n
		log := f.log
		f.mu.Unlock()
		huntAllKeys(t, inm, "", &after)
		added := huntDiff(before, after)
		failed := err != nil || (resp != nil && resp.IsError())
		if n < k {
			t.Logf("k=%d beyond op count %d; done", k, n)
			break
		}
		t.Logf("k=%d failed=%v op=%q added=%v", k, failed, log[k-1], added)
		if failed && len(added) > 0 {
			t.Errorf("k=%d: request failed but records left: %v\nlog:\n%s", k, added, strings.Join(log, "\n"))
		}
		if !failed && resp != nil && resp.Secret != nil && resp.Secret.LeaseID != "" {
			ok := false
			for _, a := range added {
				if strings.HasSuffix(a, resp.Secret.LeaseID) {
					ok = true
				}
			}
			if !ok {
				t.Errorf("k=%d: secret with lease %s handed out but no lease record; added=%v\nlog:\n%s", k, resp.Secret.LeaseID, added, strings.Join(log, "\n"))
			}
			if len(added) < 2 {
				t.Errorf("k=%d: secret handed out with lease but without token index: %v\nlog:\n%s", k, added, strings.Join(log, "\n"))
			}
		}
	}
}
