package vault

import (
	"context"
	"testing"
	"time"

	"github.com/openbao/openbao/sdk/v2/logical"
	"github.com/openbao/openbao/v2/internal/helper/namespace"
)

// A use-limited token of a child namespace spends its last use on a (denied)
// sys/seal request. It must be revoked afterwards.
func TestHunt_SealDenied_LastUse_ChildNamespaceToken(t *testing.T) {
	c, _, root := TestCoreUnsealed(t)
	ns1 := &namespace.Namespace{Path: "ns1/"}
	TestCoreCreateNamespaces(t, c, ns1)

	resp := huntOKE(t, c, logical.UpdateOperation, "ns1/auth/token/create", root, map[string]any{
		"policies": []string{"default"}, "ttl": "1h", "num_uses": 1,
	})
	tok := resp.Auth.ClientToken
	inner, err := c.DecodeSSCToken(tok)
	if err != nil {
		t.Fatal(err)
	}

	err = c.SealWithRequest(context.Background(), &logical.Request{
		Operation:   logical.UpdateOperation,
		Path:        "sys/seal",
		ClientToken: tok,
		Connection:  &logical.Connection{RemoteAddr: "127.0.0.1"},
	})
	if err == nil {
		t.Fatalf("seal should have been denied")
	}
	if c.Sealed() {
		t.Fatalf("sealed?!")
	}
	t.Logf("seal denied: %v", err)

	nsCtx := namespace.ContextWithNamespace(context.Background(), ns1)
	deadline := time.Now().Add(3 * time.Second)
	for {
		te, err := c.tokenStore.lookupTainted(nsCtx, inner)
		if err != nil {
			t.Fatal(err)
		}
		if te == nil {
			return
		}
		if time.Now().After(deadline) {
			t.Fatalf("token spent its last use on sys/seal but is still stored: num_uses=%d", te.NumUses)
		}
		time.Sleep(100 * time.Millisecond)
	}
}

// ---- helpers (self-contained copy) ----

// huntReqE sends a request through the real Core.HandleRequest in the root
// context (namespace comes from the path prefix, as over HTTP).
func huntReqE(t *testing.T, c *Core, op logical.Operation, path, token string, data map[string]any) (*logical.Response, error) {
	t.Helper()
	req := &logical.Request{
		Operation:   op,
		Path:        path,
		ClientToken: token,
		Data:        data,
		Connection:  &logical.Connection{RemoteAddr: "127.0.0.1"},
	}
	return c.HandleRequest(namespace.RootContext(context.Background()), req)
}

func huntMustE(t *testing.T, resp *logical.Response, err error) *logical.Response {
	t.Helper()
	if err != nil {
		t.Fatalf("unexpected error: %v (resp=%#v)", err, resp)
	}
	if resp != nil && resp.IsError() {
		t.Fatalf("unexpected error response: %v", resp.Error())
	}
	return resp
}

// huntOKE = huntReqE + huntMustE
func huntOKE(t *testing.T, c *Core, op logical.Operation, path, token string, data map[string]any) *logical.Response {
	t.Helper()
	resp, err := huntReqE(t, c, op, path, token, data)
	return huntMustE(t, resp, err)
}
