package vault

import (
	"context"
	"errors"
	"strings"
	"sync"
	"testing"
	"time"

	"github.com/openbao/openbao/sdk/v2/logical"
	"github.com/openbao/openbao/sdk/v2/physical"
	physInmem "github.com/openbao/openbao/sdk/v2/physical/inmem"
	"github.com/openbao/openbao/v2/internal/helper/namespace"
	"github.com/openbao/openbao/v2/internal/helper/testhelpers/corehelpers"
	"github.com/openbao/openbao/v2/internal/vault/barrier"
	"github.com/openbao/openbao/v2/internal/vault/routing"
)

// huntPutFault fails exactly one Put: the first one (after arm) whose key
// contains the given substring.
type huntPutFault struct {
	physical.Backend
	mu    sync.Mutex
	match string
	hits  int
}

func (f *huntPutFault) arm(match string) {
	f.mu.Lock()
	defer f.mu.Unlock()
	f.match = match
}

func (f *huntPutFault) Put(ctx context.Context, e *physical.Entry) error {
	f.mu.Lock()
	fail := f.match != "" && strings.Contains(e.Key, f.match)
	if fail {
		f.match = ""
		f.hits++
	}
	f.mu.Unlock()
	if fail {
		return errors.New("injected storage fault")
	}
	return f.Backend.Put(ctx, e)
}

// 1. auth/token/create with a caller-chosen id fails because the one storage
//    write that records the token's lease fails. The client gets an error.
// 2. The client retries; the token is created.
// 3. Later the token is revoked; the revocation is reported successful.
// Expected: the token's cubbyhole is removed and the leases issued under it
// are revoked / queued for immediate revocation.
func TestHunt_StuckDeletionMarkerAfterFailedLeaseRegistration(t *testing.T) {
	logger := corehelpers.NewTestLogger(t)
	inm, err := physInmem.NewInmem(nil, logger)
	if err != nil {
		t.Fatal(err)
	}
	f := &huntPutFault{Backend: inm}
	conf := testCoreConfig(t, f, logger)
	conf.DisableCache = true
	c, err := NewCore(conf)
	if err != nil {
		t.Fatal(err)
	}
	t.Cleanup(func() { _ = c.ShutdownWait() })
	_, _, root := testCoreUnsealed(t, c)
	ctx := namespace.RootContext(context.Background())
	do := func(op logical.Operation, path, tok string, data map[string]any) (*logical.Response, error) {
		return c.HandleRequest(ctx, &logical.Request{Operation: op, Path: path, ClientToken: tok, Data: data, Connection: &logical.Connection{RemoteAddr: "127.0.0.1"}})
	}
	must := func(r *logical.Response, err error) *logical.Response {
		t.Helper()
		if err != nil || (r != nil && r.IsError()) {
			t.Fatalf("unexpected failure: err=%v resp=%#v", err, r)
		}
		return r
	}

	must(do(logical.UpdateOperation, "sys/mounts/leased", root, map[string]any{"type": "kv"}))
	must(do(logical.UpdateOperation, "leased/foo", root, map[string]any{"v": "1", "lease": "1h"}))
	must(do(logical.UpdateOperation, "sys/policy/app", root, map[string]any{
		"policy": `path "leased/*" { capabilities = ["read"] }`,
	}))
	createArgs := map[string]any{"id": "svc-token", "policies": []string{"default", "app"}, "ttl": "2h"}

	// (1) creation fails at the lease write
	f.arm("sys/expire/id/auth/token/create/")
	r, err := do(logical.UpdateOperation, "auth/token/create", root, createArgs)
	if err == nil && (r == nil || !r.IsError()) {
		t.Fatalf("premise: creation should have failed")
	}
	if f.hits != 1 {
		t.Fatalf("premise: fault not hit")
	}
	t.Logf("first creation failed as intended: %v", err)

	// (2) retry succeeds
	r = must(do(logical.UpdateOperation, "auth/token/create", root, createArgs))
	tok := r.Auth.ClientToken
	must(do(logical.UpdateOperation, "cubbyhole/x", tok, map[string]any{"v": "secret"}))
	r = must(do(logical.ReadOperation, "leased/foo", tok, nil))
	leaseID := r.Secret.LeaseID

	// (3) revoke; reported successful
	must(do(logical.UpdateOperation, "auth/token/revoke", root, map[string]any{"token": tok}))

	time.Sleep(500 * time.Millisecond)
	var problems []string
	if r, err := do(logical.ReadOperation, "cubbyhole/x", tok, nil); err == nil && r != nil && !r.IsError() {
		problems = append(problems, "token still accepted")
	}
	view := c.router.MatchingStorageByAPIPath(ctx, routing.MountPathCubbyhole).(barrier.View)
	keys, err := logical.CollectKeys(ctx, view)
	if err != nil {
		t.Fatal(err)
	}
	if len(keys) != 0 {
		problems = append(problems, "cubbyhole data still stored: "+strings.Join(keys, ","))
	}
	le, err := c.expiration.loadEntry(ctx, leaseID)
	if err != nil {
		t.Fatal(err)
	}
	if le != nil && le.ExpireTime.After(time.Now()) {
		problems = append(problems, "lease "+leaseID+" still live for "+time.Until(le.ExpireTime).Round(time.Second).String())
	}
	te, err := c.tokenStore.lookupTainted(ctx, tok)
	_ = te
	salted, _ := c.tokenStore.SaltID(ctx, tok)
	if raw, _ := c.tokenStore.idView(namespace.RootNamespace).Get(ctx, salted); raw != nil {
		problems = append(problems, "token entry still stored")
	}
	if len(problems) > 0 {
		t.Fatalf("revocation reported success, but: %s", strings.Join(problems, "; "))
	}
}
