package vault

import (
	"context"
	"testing"
	"time"

	"github.com/openbao/openbao/sdk/v2/logical"
	"github.com/openbao/openbao/v2/internal/helper/namespace"
)

// A root-namespace token that reads a leased secret from a mount in a child
// namespace: after the token is revoked, the lease must be revoked or queued
// for immediate revocation.
func TestHunt_ParentNSTokenLeaseInChildNS_RevokedWithToken(t *testing.T) {
	c, _, root := TestCoreUnsealed(t)
	ns1 := &namespace.Namespace{Path: "ns1/"}
	TestCoreCreateNamespaces(t, c, ns1)

	// leased kv mount inside ns1
	huntOKA(t, c, logical.UpdateOperation, "ns1/sys/mounts/leased", root, map[string]any{"type": "kv"})
	huntOKA(t, c, logical.UpdateOperation, "ns1/leased/foo", root, map[string]any{"v": "1", "lease": "1h"})

	// policy in the root namespace that reaches into ns1
	huntOKA(t, c, logical.UpdateOperation, "sys/policy/reach", root, map[string]any{
		"policy": `path "ns1/leased/*" { capabilities = ["read"] }`,
	})
	resp := huntOKA(t, c, logical.UpdateOperation, "auth/token/create", root, map[string]any{
		"policies": []string{"reach"}, "ttl": "1h",
	})
	tok := resp.Auth.ClientToken

	resp = huntOKA(t, c, logical.ReadOperation, "ns1/leased/foo", tok, nil)
	if resp == nil || resp.Secret == nil || resp.Secret.LeaseID == "" {
		t.Fatalf("expected a leased secret, got %#v", resp)
	}
	leaseID := resp.Secret.LeaseID
	t.Logf("lease id: %s", leaseID)

	// revoke the token
	huntOKA(t, c, logical.UpdateOperation, "auth/token/revoke", root, map[string]any{"token": tok})

	// token is gone
	if _, err := huntReqA(t, c, logical.ReadOperation, "ns1/leased/foo", tok, nil); err == nil {
		t.Fatalf("revoked token still works")
	}

	// the lease must be gone or expiring now
	deadline := time.Now().Add(3 * time.Second)
	for {
		nsCtx := namespace.ContextWithNamespace(context.Background(), ns1)
		le, err := c.expiration.loadEntry(nsCtx, leaseID)
		if err != nil {
			t.Fatal(err)
		}
		if le == nil {
			return // revoked
		}
		if !le.ExpireTime.After(time.Now()) {
			return // queued for immediate revocation
		}
		if time.Now().After(deadline) {
			t.Fatalf("token revoked successfully, but lease %s issued under it is still live: expires in %s", leaseID, time.Until(le.ExpireTime).Round(time.Second))
		}
		time.Sleep(100 * time.Millisecond)
	}
}

// Control: same thing entirely inside the root namespace.
func TestHunt_Control_RootTokenLease_RevokedWithToken(t *testing.T) {
	c, _, root := TestCoreUnsealed(t)
	huntOKA(t, c, logical.UpdateOperation, "sys/mounts/leased", root, map[string]any{"type": "kv"})
	huntOKA(t, c, logical.UpdateOperation, "leased/foo", root, map[string]any{"v": "1", "lease": "1h"})
	huntOKA(t, c, logical.UpdateOperation, "sys/policy/reach", root, map[string]any{
		"policy": `path "leased/*" { capabilities = ["read"] }`,
	})
	resp := huntOKA(t, c, logical.UpdateOperation, "auth/token/create", root, map[string]any{
		"policies": []string{"reach"}, "ttl": "1h",
	})
	tok := resp.Auth.ClientToken
	resp = huntOKA(t, c, logical.ReadOperation, "leased/foo", tok, nil)
	leaseID := resp.Secret.LeaseID
	huntOKA(t, c, logical.UpdateOperation, "auth/token/revoke", root, map[string]any{"token": tok})
	deadline := time.Now().Add(3 * time.Second)
	for {
		le, err := c.expiration.loadEntry(namespace.RootContext(context.Background()), leaseID)
		if err != nil {
			t.Fatal(err)
		}
		if le == nil || !le.ExpireTime.After(time.Now()) {
			return
		}
		if time.Now().After(deadline) {
			t.Fatalf("lease still live")
		}
		time.Sleep(100 * time.Millisecond)
	}
}

// ---- helpers (self-contained copy) ----

// huntReqA sends a request through the real Core.HandleRequest in the root
// context (namespace comes from the path prefix, as over HTTP).
func huntReqA(t *testing.T, c *Core, op logical.Operation, path, token string, data map[string]any) (*logical.Response, error) {
	t.Helper()
	req := &logical.Request{
		Operation:   op,
		Path:        path,
		ClientToken: token,
		Data:        data,
		Connection:  &logical.Connection{RemoteAddr: "127.0.0.1"},
	}
	return c.HandleRequest(namespace.RootContext(context.Background()), req)
}

func huntMustA(t *testing.T, resp *logical.Response, err error) *logical.Response {
	t.Helper()
	if err != nil {
		t.Fatalf("unexpected error: %v (resp=%#v)", err, resp)
	}
	if resp != nil && resp.IsError() {
		t.Fatalf("unexpected error response: %v", resp.Error())
	}
	return resp
}

// huntOKA = huntReqA + huntMustA
func huntOKA(t *testing.T, c *Core, op logical.Operation, path, token string, data map[string]any) *logical.Response {
	t.Helper()
	resp, err := huntReqA(t, c, op, path, token, data)
	return huntMustA(t, resp, err)
}
