package raft

import (
	"context"
	"testing"

	"github.com/openbao/openbao/sdk/v2/physical"
)

func huntPut(t *testing.T, b physical.Backend, k, v string) {
	t.Helper()
	if err := b.Put(context.Background(), &physical.Entry{Key: k, Value: []byte(v)}); err != nil {
		t.Fatal(err)
	}
}

// A transaction lists a prefix; before it commits another client REWRITES an
// existing key below the prefix (same set of children: the listing the
// transaction observed is unchanged at commit time).  The write makes the FSM
// take the slow verification path (re-list and compare hashes).
//
//   - flat prefix            -> commits            (control)
//   - prefix with a folder
//     holding two keys       -> commit-conflict     (RaftTransaction.ListPage put
//     the FULL storage key "p/a/2" into presentKeys for the second key of the
//     folder, listPageInner never returns such an item, the hashes cannot match)
func TestHunt_RaftListVerifyFolderWithTwoKeys(t *testing.T) {
	ctx := context.Background()
	b := GetRaft(t, true, true)

	run := func(name string, seed []string, rewrite string) error {
		for _, k := range seed {
			huntPut(t, b, k, "v0")
		}
		tx, err := b.BeginTx(ctx)
		if err != nil {
			t.Fatal(err)
		}
		keys, err := tx.List(ctx, name+"/")
		if err != nil {
			t.Fatal(err)
		}
		t.Logf("%s: listed %q", name, keys)
		if err := tx.Put(ctx, &physical.Entry{Key: "out/" + name, Value: []byte("w")}); err != nil {
			t.Fatal(err)
		}
		// concurrent writer: same key set, new value
		huntPut(t, b, rewrite, "v1")
		return tx.Commit(ctx)
	}

	if err := run("flat", []string{"flat/a", "flat/b"}, "flat/b"); err != nil {
		t.Fatalf("control failed: %v", err)
	}
	if err := run("p", []string{"p/a/1", "p/a/2", "p/b"}, "p/b"); err != nil {
		t.Errorf("listing of p/ is unchanged (%v) but the transaction was refused: %v", func() []string { l, _ := b.List(ctx, "p/"); return l }(), err)
	}
}

// Same, for a key the transaction deleted before listing: the deleted key goes
// into presentKeys with its full storage key.
func TestHunt_RaftListVerifyAfterOwnDelete(t *testing.T) {
	ctx := context.Background()
	b := GetRaft(t, true, true)
	for _, k := range []string{"q/a", "q/b", "q/c"} {
		huntPut(t, b, k, "v0")
	}
	tx, err := b.BeginTx(ctx)
	if err != nil {
		t.Fatal(err)
	}
	if err := tx.Delete(ctx, "q/b"); err != nil {
		t.Fatal(err)
	}
	keys, err := tx.List(ctx, "q/")
	if err != nil {
		t.Fatal(err)
	}
	t.Logf("listed %q", keys)
	huntPut(t, b, "q/c", "v1") // rewrite of an existing key the txn never read
	if err := tx.Commit(ctx); err != nil {
		t.Errorf("listing of q/ is unchanged but the transaction was refused: %v", err)
	}
}
