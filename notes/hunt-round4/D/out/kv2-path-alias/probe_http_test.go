package http

import (
	"io"
	"testing"

	"github.com/openbao/openbao/v2/internal/vault"
)

// HTTP reachability of the kv-v2 aliases: "%2F%2F" reaches the backend as "//"
// (no ServeMux redirect), a trailing slash on DELETE is passed through.
func TestHunt_KVv2AliasOverHTTP(t *testing.T) {
	core, _, token := vault.TestCoreUnsealed(t)
	vault.TestCoreUpgradeToKVv2(t, core, token)
	ln, addr := TestServer(t, core)
	defer ln.Close()
	TestServerAuth(t, addr, token)

	body := func(pw string) map[string]any { return map[string]any{"data": map[string]any{"pw": pw}} }
	var code int
	for i := 0; i < 200; i++ { // kv-v2 "upgrading" right after mount
		resp := testHttpPut(t, token, addr+"/v1/secret/data/team/db", body("one"))
		code = resp.StatusCode
		resp.Body.Close()
		if code == 200 {
			break
		}
	}
	if code != 200 {
		t.Fatalf("setup write: %d", code)
	}
	resp := testHttpPut(t, token, addr+"/v1/secret/data/team%2F%2Fdb", body("two"))
	b, _ := io.ReadAll(resp.Body)
	t.Logf("PUT /v1/secret/data/team%%2F%%2Fdb -> %d %s", resp.StatusCode, b)

	resp = testHttpGet(t, token, addr+"/v1/secret/data/team/db")
	b, _ = io.ReadAll(resp.Body)
	if resp.StatusCode != 200 {
		t.Errorf("GET /v1/secret/data/team/db after the aliased write -> %d %s", resp.StatusCode, b)
	}

	resp = testHttpPut(t, token, addr+"/v1/secret/data/app", body("one"))
	resp.Body.Close()
	resp = testHttpDelete(t, token, addr+"/v1/secret/metadata/app/")
	t.Logf("DELETE /v1/secret/metadata/app/ -> %d", resp.StatusCode)
	resp = testHttpGet(t, token, addr+"/v1/secret/data/app")
	if resp.StatusCode != 200 {
		t.Errorf("GET /v1/secret/data/app after DELETE /v1/secret/metadata/app/ -> %d (secret gone)", resp.StatusCode)
	}
}
