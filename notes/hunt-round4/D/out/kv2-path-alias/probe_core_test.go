package vault

import (
	"context"
	"testing"

	"github.com/openbao/openbao/sdk/v2/logical"
	"github.com/openbao/openbao/v2/internal/helper/namespace"
)

// End to end through Core.HandleRequest: a token whose policy covers only the
// FOLDER secret/metadata/app/* deletes the sibling SECRET secret/metadata/app
// by sending DELETE secret/metadata/app/ ; and a write to secret/data/app//db
// (accepted by Core) bumps the version counter of secret/data/app/db.
func TestHunt_KVv2AliasThroughCore(t *testing.T) {
	c, _, root := TestCoreUnsealed(t)
	TestCoreUpgradeToKVv2(t, c, root)
	ctx := namespace.RootContext(context.Background())

	do := func(tok string, op logical.Operation, path string, data map[string]any) (*logical.Response, error) {
		t.Helper()
		return c.HandleRequest(ctx, &logical.Request{Operation: op, Path: path, ClientToken: tok, Data: data})
	}
	must := func(resp *logical.Response, err error) *logical.Response {
		t.Helper()
		if err != nil || (resp != nil && resp.IsError()) {
			t.Fatalf("err=%v resp=%#v", err, resp)
		}
		return resp
	}

	// kv-v2 upgrade runs in the background right after mounting
	var err error
	var resp *logical.Response
	for i := 0; i < 200; i++ {
		resp, err = do(root, logical.UpdateOperation, "secret/data/app", map[string]any{"data": map[string]any{"pw": "one"}})
		if err == nil && resp != nil && !resp.IsError() {
			break
		}
	}
	must(resp, err)
	must(do(root, logical.UpdateOperation, "secret/data/app/child", map[string]any{"data": map[string]any{"x": "y"}}))

	must(do(root, logical.UpdateOperation, "sys/policies/acl/folder-only", map[string]any{
		"policy": `path "secret/metadata/app/*" { capabilities = ["read", "list", "delete"] }`,
	}))
	resp = must(do(root, logical.UpdateOperation, "auth/token/create", map[string]any{"policies": []string{"folder-only"}, "no_default_policy": true}))
	tok := resp.Auth.ClientToken

	// sanity: the secret itself is outside the policy
	if _, err := do(tok, logical.DeleteOperation, "secret/metadata/app", nil); err == nil {
		t.Fatal("sanity: DELETE secret/metadata/app should be denied")
	}

	// the folder name is inside the policy ...
	resp, err = do(tok, logical.DeleteOperation, "secret/metadata/app/", nil)
	t.Logf("DELETE secret/metadata/app/ with folder-only token: resp=%v err=%v", resp, err)

	// ... and must not have touched the secret "app"
	resp, err = do(root, logical.ReadOperation, "secret/data/app", nil)
	if err != nil {
		t.Fatal(err)
	}
	if resp == nil || resp.Data["data"] == nil {
		t.Errorf("secret/data/app is gone: it was deleted by a token that may only delete secret/metadata/app/* (read now returns %#v)", resp)
	}

	// second alias: double slash
	must(do(root, logical.UpdateOperation, "secret/data/team/db", map[string]any{"data": map[string]any{"pw": "one"}}))
	resp, err = do(root, logical.UpdateOperation, "secret/data/team//db", map[string]any{"data": map[string]any{"pw": "two"}})
	t.Logf("write secret/data/team//db: resp=%v err=%v", resp, err)
	resp, err = do(root, logical.ReadOperation, "secret/data/team/db", nil)
	if err != nil || resp == nil || resp.Data["data"] == nil {
		t.Errorf("secret/data/team/db unreadable after a write to secret/data/team//db: resp=%#v err=%v", resp, err)
	}
}
