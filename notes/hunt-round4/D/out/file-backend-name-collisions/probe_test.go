package file

import (
	"context"
	"testing"

	log "github.com/hashicorp/go-hclog"
	"github.com/openbao/openbao/sdk/v2/helper/logging"
	"github.com/openbao/openbao/sdk/v2/physical"
)

// Put(k) stages its data in the sibling file "_k.temp" and renames it over
// "_k".  "_k.temp" is also the on-disk name of the unrelated KEY "k.temp", so
// a Put of "k" silently destroys the key "k.temp".
func TestHunt_FilePutDestroysDotTempSibling(t *testing.T) {
	ctx := context.Background()
	b, err := NewFileBackend(map[string]string{"path": t.TempDir()}, logging.NewVaultLogger(log.Error))
	if err != nil {
		t.Fatal(err)
	}

	if err := b.Put(ctx, &physical.Entry{Key: "secret/app.temp", Value: []byte("precious")}); err != nil {
		t.Fatal(err)
	}
	// an unrelated key
	if err := b.Put(ctx, &physical.Entry{Key: "secret/app", Value: []byte("other")}); err != nil {
		t.Fatal(err)
	}

	e, err := b.Get(ctx, "secret/app.temp")
	if err != nil {
		t.Fatal(err)
	}
	keys, _ := b.List(ctx, "secret/")
	if e == nil || string(e.Value) != "precious" {
		t.Fatalf("key secret/app.temp lost after Put(secret/app): got %v; listing now %q (want [app app.temp])", e, keys)
	}
}

// A directory is stored under its plain name, a key under "_"+name: the key
// "a" and the folder "_a/" share the on-disk name "_a".
func TestHunt_FileUnderscoreFolderShadowsKey(t *testing.T) {
	ctx := context.Background()
	b, err := NewFileBackend(map[string]string{"path": t.TempDir()}, logging.NewVaultLogger(log.Error))
	if err != nil {
		t.Fatal(err)
	}
	if err := b.Put(ctx, &physical.Entry{Key: "_a/b", Value: []byte("x")}); err != nil {
		t.Fatal(err)
	}
	// key "a" was never written
	e, err := b.Get(ctx, "a")
	if err != nil || e != nil {
		t.Errorf("Get(a) on a key never written: entry=%v err=%v (want nil,nil)", e, err)
	}
	if err := b.Put(ctx, &physical.Entry{Key: "a", Value: []byte("y")}); err != nil {
		t.Errorf("Put(a) fails because folder _a/ exists: %v", err)
	}
}
