package raft

import (
	"context"
	"os"
	"os/exec"
	"strings"
	"testing"
	"time"

	"github.com/hashicorp/go-hclog"

	"github.com/openbao/openbao/sdk/v2/physical"
)

// RaftBackend.Put (and RaftTransaction.Put) check only the UPPER bound of the
// key length.  bbolt refuses the empty key (ErrKeyRequired); inside
// FSM.ApplyBatch that error is not a commit conflict, so the bolt update is
// aborted and the FSM panics("failed to store data") - on every replica, and
// again on every restart, because the entry is committed in the raft log and
// the FSM's persisted index was not advanced.  The in-memory and file backends,
// the cache, the encoding check and the barrier all accept the empty key.
//
// The Put runs in a child process because the panic happens on raft's FSM
// goroutine and cannot be recovered.
func TestHunt_RaftEmptyKeyPanicsFSM(t *testing.T) {
	if os.Getenv("HUNT_EMPTYKEY_CHILD") == "1" {
		b := GetRaft(t, true, true)
		err := b.Put(context.Background(), &physical.Entry{Key: "", Value: []byte("x")})
		t.Logf("CHILD-SURVIVED Put returned: %v", err)
		return
	}

	cmd := exec.Command(os.Args[0], "-test.run=^TestHunt_RaftEmptyKeyPanicsFSM$", "-test.v")
	cmd.Env = append(os.Environ(), "HUNT_EMPTYKEY_CHILD=1")
	out, err := cmd.CombinedOutput()
	s := string(out)
	if strings.Contains(s, "panic: failed to store data") {
		idx := strings.Index(s, "panic: failed to store data")
		end := idx + 600
		if end > len(s) {
			end = len(s)
		}
		t.Fatalf("Put with the empty key crashed the process from the FSM (child exit: %v):\n%s", err, s[idx:end])
	}
	if !strings.Contains(s, "CHILD-SURVIVED") {
		t.Fatalf("unexpected child output (exit %v):\n%s", err, s)
	}
}

// The crash repeats on restart: the same data directory and node id are started
// again in a second child; raft re-applies the committed entry and the FSM
// panics again.
func TestHunt_RaftEmptyKeyPanicsAgainOnRestart(t *testing.T) {
	start := func(dir string, bootstrap bool) *RaftBackend {
		logger := hclog.New(&hclog.LoggerOptions{Name: "raft-restart", Level: hclog.Error})
		raw, err := NewRaftBackend(map[string]string{"path": dir, "node_id": "n1", "trailing_logs": "100"}, logger)
		if err != nil {
			t.Fatal(err)
		}
		b := raw.(*RaftBackend)
		if bootstrap {
			if err := b.Bootstrap([]Peer{{ID: "n1", Address: "n1"}}); err != nil {
				t.Fatal(err)
			}
		}
		if err := b.SetupCluster(context.Background(), SetupOpts{}); err != nil {
			t.Fatal(err)
		}
		return b
	}
	switch os.Getenv("HUNT_EMPTYKEY_PHASE") {
	case "1":
		b := start(os.Getenv("HUNT_EMPTYKEY_DIR"), true)
		for b.raft.AppliedIndex() < 2 {
		}
		_ = b.Put(context.Background(), &physical.Entry{Key: "ok", Value: []byte("x")})
		err := b.Put(context.Background(), &physical.Entry{Key: "", Value: []byte("x")})
		t.Logf("CHILD-SURVIVED phase 1: %v", err)
		return
	case "2":
		b := start(os.Getenv("HUNT_EMPTYKEY_DIR"), false)
		deadline := time.Now().Add(20 * time.Second)
		for time.Now().Before(deadline) {
			if err := b.Put(context.Background(), &physical.Entry{Key: "after", Value: []byte("x")}); err == nil {
				break
			}
			time.Sleep(100 * time.Millisecond)
		}
		t.Logf("CHILD-SURVIVED phase 2")
		return
	}

	dir := t.TempDir()
	run := func(phase string) string {
		cmd := exec.Command(os.Args[0], "-test.run=^TestHunt_RaftEmptyKeyPanicsAgainOnRestart$", "-test.v")
		cmd.Env = append(os.Environ(), "HUNT_EMPTYKEY_PHASE="+phase, "HUNT_EMPTYKEY_DIR="+dir)
		out, _ := cmd.CombinedOutput()
		return string(out)
	}
	o1 := run("1")
	if !strings.Contains(o1, "panic: failed to store data") {
		t.Fatalf("phase 1 did not panic:\n%s", o1)
	}
	o2 := run("2")
	if strings.Contains(o2, "panic: failed to store data") {
		t.Fatalf("restart on the same data directory panics again while re-applying the committed entry (node cannot come back)")
	}
	if !strings.Contains(o2, "CHILD-SURVIVED phase 2") {
		t.Fatalf("unexpected phase 2 output:\n%s", o2)
	}
}
