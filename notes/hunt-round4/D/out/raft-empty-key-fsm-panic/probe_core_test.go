package vault

import (
	"context"
	"testing"

	"github.com/openbao/openbao/sdk/v2/logical"
	"github.com/openbao/openbao/v2/internal/helper/namespace"
)

// Reachability half of the raft empty-key crash: `bao write sys/raw value=x`
// (pattern "raw/?$", field path == "") hands the EMPTY key through the barrier,
// the encoding check and the cache to the physical backend.
func TestHunt_SysRawEmptyPathReachesPhysical(t *testing.T) {
	c, _, root := TestCoreUnsealedRaw(t)
	ctx := namespace.RootContext(context.Background())

	resp, err := c.HandleRequest(ctx, &logical.Request{
		Operation:   logical.UpdateOperation,
		Path:        "sys/raw",
		ClientToken: root,
		Data:        map[string]any{"value": "x"},
	})
	t.Logf("write sys/raw: resp=%v err=%v", resp, err)

	e, gerr := c.physical.Get(ctx, "")
	if gerr != nil {
		t.Fatal(gerr)
	}
	if e != nil {
		t.Fatalf("physical backend received Put with the empty key (%d bytes stored); on raft storage this Put panics every FSM", len(e.Value))
	}
}
