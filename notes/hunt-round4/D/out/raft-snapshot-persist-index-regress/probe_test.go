package raft

import (
	"context"
	"fmt"
	"sync"
	"sync/atomic"
	"testing"
	"time"

	hraft "github.com/hashicorp/raft"
	"github.com/openbao/openbao/sdk/v2/physical"
	"google.golang.org/protobuf/proto"
)

func snapPut(t *testing.T, b physical.Backend, k, v string) {
	t.Helper()
	if err := b.Put(context.Background(), &physical.Entry{Key: k, Value: []byte(v)}); err != nil {
		t.Fatal(err)
	}
}

// hashicorp/raft takes a snapshot in two steps on two goroutines: the FSM
// goroutine records "last applied index = S" (fsm.go: snapshot()), and later
// the snapshot goroutine calls FSMSnapshot.Persist (snapshot.go: takeSnapshot).
// The FSM keeps applying entries in between.  noopSnapshotter.Persist ->
// FSM.witnessSnapshot stores S into latest_indexes / f.latestIndex
// unconditionally, i.e. it moves the FSM's index BACKWARDS when entries above S
// were applied meanwhile.
//
// canFastWrite() (first command of a batch && f.latestIndex == transaction start
// index) then believes that nothing was applied since the transaction began and
// skips every verification.

// Deterministic: the late Persist is replayed by calling witnessSnapshot with
// the index the snapshot was captured at.
func TestHunt_RaftSnapshotPersistRegressesIndex_StaleCommit(t *testing.T) {
	ctx := context.Background()
	b := GetRaft(t, true, true)

	snapPut(t, b, "k", "v0")
	snapPut(t, b, "other", "x")

	// the transaction begins; it reads k
	tx, err := b.BeginTx(ctx)
	if err != nil {
		t.Fatal(err)
	}
	e, err := tx.Get(ctx, "k")
	if err != nil || e == nil {
		t.Fatal(err, e)
	}

	// raft's FSM goroutine captures the snapshot position now ...
	idx, _ := b.fsm.LatestState()
	captured := hraft.SnapshotMeta{Version: 1, ID: "x", Index: idx.Index, Term: idx.Term}
	_, cfg := b.fsm.LatestState()
	if cfg != nil {
		captured.ConfigurationIndex, captured.Configuration = protoConfigurationToRaftConfiguration(cfg)
	}

	// ... another client overwrites k ...
	snapPut(t, b, "k", "v1")
	after, _ := b.fsm.LatestState()

	// ... and only now does raft's snapshot goroutine reach Persist.
	if err := b.fsm.witnessSnapshot(&captured); err != nil {
		t.Fatal(err)
	}
	now, _ := b.fsm.LatestState()
	t.Logf("FSM index after the write: %d, after Persist of the snapshot captured earlier: %d", after.Index, now.Index)

	// the transaction writes something derived from its (stale) read and commits
	if err := tx.Put(ctx, &physical.Entry{Key: "derived", Value: append([]byte("from-"), e.Value...)}); err != nil {
		t.Fatal(err)
	}
	err = tx.Commit(ctx)
	cur, _ := b.Get(ctx, "k")
	if err == nil {
		t.Fatalf("transaction committed although k changed from %q to %q after it was read (FSM index went %d -> %d, transaction start index %d)",
			e.Value, cur.Value, after.Index, now.Index, idx.Index)
	}
}

// The regression with the real library call: raft.Snapshot() racing with Puts.
func TestHunt_RaftSnapshotPersistRegressesIndex_RealSnapshot(t *testing.T) {
	ctx := context.Background()
	b := GetRaft(t, true, true)

	var stop atomic.Bool
	var wg sync.WaitGroup
	wg.Add(1)
	go func() {
		defer wg.Done()
		for !stop.Load() {
			_ = b.raft.Snapshot().Error()
		}
	}()

	for w := 0; w < 8; w++ {
		wg.Add(1)
		go func(w int) {
			defer wg.Done()
			for i := 0; !stop.Load(); i++ {
				if err := b.Put(ctx, &physical.Entry{Key: fmt.Sprintf("k%d-%d", w, i%16), Value: []byte("v")}); err != nil {
					return
				}
			}
		}(w)
	}

	// monitor: the index the FSM reports must never decrease
	deadline := time.Now().Add(30 * time.Second)
	var regress string
	var hi uint64
	for time.Now().Before(deadline) && regress == "" {
		cur := b.AppliedIndex()
		if cur < hi {
			regress = fmt.Sprintf("RaftBackend.AppliedIndex() went backwards: %d -> %d", hi, cur)
		}
		hi = max(hi, cur)
	}
	stop.Store(true)
	wg.Wait()
	if regress != "" {
		t.Fatal(regress)
	}
}

// End to end with the real library call only: a transaction reads k, a raft
// snapshot is requested, another client overwrites k, the transaction commits.
// The commit must be refused every time; it is accepted whenever the
// snapshot's Persist lands after the overwrite.
func TestHunt_RaftSnapshotPersistRegressesIndex_EndToEnd(t *testing.T) {
	ctx := context.Background()
	b := GetRaft(t, true, true)
	snapPut(t, b, "k", "v0")

	deadline := time.Now().Add(60 * time.Second)
	for i := 1; time.Now().Before(deadline); i++ {
		tx, err := b.BeginTx(ctx)
		if err != nil {
			t.Fatal(err)
		}
		e, err := tx.Get(ctx, "k")
		if err != nil || e == nil {
			t.Fatal(err, e)
		}
		start := b.AppliedIndex()

		snap := b.raft.Snapshot()
		newVal := fmt.Sprintf("v%d", i)
		snapPut(t, b, "k", newVal)
		_ = snap.Error()

		if err := tx.Put(ctx, &physical.Entry{Key: "derived", Value: e.Value}); err != nil {
			t.Fatal(err)
		}
		before := b.AppliedIndex()
		if err := tx.Commit(ctx); err == nil {
			t.Fatalf("iteration %d: transaction (start index %d) read k=%q, k was then overwritten with %q (applied at index > %d), FSM index right before the commit: %d, and the commit was ACCEPTED (FSM index now %d)",
				i, start, e.Value, newVal, start, before, b.AppliedIndex())
		}
	}
}

// C09: two replicas apply the SAME three log entries, one entry per batch, no
// restart, no snapshot install.  On replica B the local raft snapshot that was
// captured after entry 1 reaches Persist after entry 2 was applied (every node
// snapshots on its own schedule).  A refuses the transaction, B commits it.
func TestHunt_RaftSnapshotPersistRegressesIndex_ReplicaDivergence(t *testing.T) {
	mk := func(ops []*LogOperation, lowest uint64) []byte {
		d, err := proto.Marshal(&LogData{Operations: ops, LowestActiveIndex: &lowest})
		if err != nil {
			t.Fatal(err)
		}
		return d
	}
	begin, _ := createBeginTxOpValue(1) // the transaction began when the FSM was at index 1
	hashV0, _ := createVerificationEntry("k", []byte("v0"))
	logs := []*hraft.Log{
		{Index: 1, Term: 1, Type: hraft.LogCommand, Data: mk([]*LogOperation{{OpType: putOp, Key: "k", Value: []byte("v0")}}, 1)},
		{Index: 2, Term: 1, Type: hraft.LogCommand, Data: mk([]*LogOperation{{OpType: putOp, Key: "k", Value: []byte("v1")}}, 1)},
		{Index: 3, Term: 1, Type: hraft.LogCommand, Data: mk([]*LogOperation{
			{OpType: beginTxOp, Value: begin},
			{OpType: verifyReadOp, Key: "k", Value: hashV0},
			{OpType: putOp, Key: "derived", Value: []byte("from-v0")},
			{OpType: commitTxOp},
		}, 2)},
	}

	verdict := func(r any) string {
		resp := r.(*FSMApplyResponse)
		if len(resp.EntrySlice) == 1 && resp.EntrySlice[0].IsTxError() {
			return "CONFLICT"
		}
		return "COMMIT"
	}

	a, b := getFSM(t), getFSM(t)
	a.Apply(logs[0])
	a.Apply(logs[1])
	va := verdict(a.Apply(logs[2]))

	b.Apply(logs[0])
	// b's raft FSM goroutine hands out a snapshot position here (index 1) ...
	b.Apply(logs[1])
	// ... and b's snapshot goroutine calls FSMSnapshot.Persist now.
	if err := b.witnessSnapshot(&hraft.SnapshotMeta{Version: 1, ID: "x", Index: 1, Term: 1}); err != nil {
		t.Fatal(err)
	}
	vb := verdict(b.Apply(logs[2]))

	ea, _ := a.Get(context.Background(), "derived")
	eb, _ := b.Get(context.Background(), "derived")
	if va != vb || (ea == nil) != (eb == nil) {
		t.Fatalf("same log, different outcome: replica A %s (derived=%v), replica B %s (derived=%v)", va, ea, vb, eb)
	}
}
