package vault

// C05 probe: revocationJob.OnFailure, once the retry budget is used up (or the
// error is "unrecoverable"), re-loads the lease to mark it irrevocable; if that
// load fails it just returns: the timer that already fired is not re-armed, the
// attempt counter is not stored, the lease is not marked irrevocable. After a
// storage outage that outlasts the retry budget every lease that expired early
// in the outage stays in storage (and in the pending map) and is never revoked
// on this node.

import (
	"context"
	"sync"
	"testing"
	"time"

	"github.com/openbao/openbao/sdk/v2/logical"
	"github.com/openbao/openbao/sdk/v2/physical/inmem"
	"github.com/openbao/openbao/v2/internal/helper/namespace"
	be "github.com/openbao/openbao/v2/internal/vault/backend"
)

func TestHuntC05_LeaseDroppedFromRetryAfterStorageOutage(t *testing.T) {
	var mu sync.Mutex
	revokes := 0
	handler := func(ctx context.Context, req *logical.Request) (*logical.Response, error) {
		switch req.Operation {
		case logical.ReadOperation:
			return &logical.Response{
				Secret: &logical.Secret{
					LeaseOptions: logical.LeaseOptions{TTL: time.Second, Renewable: true},
					InternalData: map[string]any{"secret_type": "hunt"},
				},
				Data: map[string]any{"user": req.Path},
			}, nil
		case logical.RevokeOperation:
			mu.Lock()
			revokes++
			mu.Unlock()
			return nil, nil // the backend itself is always healthy
		}
		return nil, nil
	}
	phys, err := inmem.NewInmem(nil, logger)
	if err != nil {
		t.Fatal(err)
	}
	conf := &CoreConfig{
		Physical: phys,
		LogicalBackends: map[string]logical.Factory{
			"hunt": func(ctx context.Context, cfg *logical.BackendConfig) (logical.Backend, error) {
				return &be.Noop{RequestHandler: handler}, nil
			},
		},
	}
	c, _, root := testCoreUnsealed(t, TestCoreWithSealAndUI(t, conf))
	for deadline := time.Now().Add(10 * time.Second); c.expiration.inRestoreMode(); {
		if time.Now().After(deadline) {
			t.Fatal("still restoring")
		}
		time.Sleep(20 * time.Millisecond)
	}

	// only shortens the back-off: the default base of 10s gives a budget of
	// (20+40+80+160+320)s x [0.5,1.5], i.e. 5 to 15 minutes
	c.expiration.revokeRetryBase = 10 * time.Millisecond

	ctx := namespace.RootContext(t.Context())
	do := func(op logical.Operation, path string, data map[string]any) *logical.Response {
		t.Helper()
		req := &logical.Request{Operation: op, Path: path, ClientToken: root, Data: data}
		if err := c.PopulateTokenEntry(ctx, req); err != nil {
			t.Fatal(err)
		}
		resp, err := c.HandleRequest(ctx, req)
		if err != nil || (resp != nil && resp.IsError()) {
			t.Fatalf("%s %s: %v %#v", op, path, err, resp)
		}
		return resp
	}
	do(logical.UpdateOperation, "sys/mounts/hunt", map[string]any{"type": "hunt"})
	leaseID := do(logical.ReadOperation, "hunt/creds", nil).Secret.LeaseID

	// storage outage (reads fail) starts before the lease expires and lasts
	// longer than the retry budget
	phys.(interface{ FailGet(bool) }).FailGet(true)
	time.Sleep(4 * time.Second)
	phys.(interface{ FailGet(bool) }).FailGet(false)
	// storage is healthy again from here on

	deadline := time.Now().Add(6 * time.Second)
	state := ""
	for time.Now().Before(deadline) && state == "" {
		le, err := c.expiration.loadEntryInternal(ctx, leaseID, false, false)
		if err != nil {
			t.Fatalf("load: %v", err)
		}
		switch {
		case le == nil:
			state = "revoked"
		case le.isIrrevocable():
			state = "irrevocable (stored)"
		default:
			if _, ok := c.expiration.irrevocable.Load(leaseID); ok {
				state = "irrevocable (in memory)"
			}
		}
		time.Sleep(100 * time.Millisecond)
	}
	mu.Lock()
	n := revokes
	mu.Unlock()
	if state == "" {
		le, _ := c.expiration.loadEntryInternal(ctx, leaseID, false, false)
		_, inPending := c.expiration.pending.Load(leaseID)
		t.Fatalf("lease %q expired %v ago and storage has been healthy for 6s (600x the retry base), but it is still stored, "+
			"not irrevocable, the backend received %d revoke requests; in pending map=%v (its timer fired and was never re-armed): "+
			"it will never be revoked on this node", leaseID, time.Since(le.ExpireTime).Round(time.Second), n, inPending)
	}
	t.Logf("lease ended as: %s (revoke requests=%d)", state, n)
}
