package http

import (
	"testing"

	"github.com/openbao/openbao/api/v2"
	"github.com/openbao/openbao/sdk/v2/logical"
	"github.com/openbao/openbao/v2/internal/builtin/credential/userpass"
	"github.com/openbao/openbao/v2/internal/vault"
	"github.com/stretchr/testify/require"
)

// huntC18CGSetup builds a one-node cluster with
//   - alice (entity, policy secretPolicy: secret/foo read+update, update is
//     governed by a control group needing one approval of "security-approvers")
//   - bob (entity, member of group security-approvers, may call
//     sys/control-group/authorize)
//
// and returns a client plus the tokens. Everything goes through the HTTP API,
// exactly as TestHTTP_ControlGroupWrapping does.
func huntC18CGSetup(t *testing.T) (client *api.Client, rootToken, aliceToken, bobToken string, cleanup func()) {
	secretPolicy := `
path "secret/foo" {
  capabilities = ["read", "update"]
  control_group = {
    ttl = "5m"
    factor "security-approval" {
      controlled_capabilities = ["update"]
      identity = {
	group_names = ["security-approvers"]
	approvals   = 1
      }
    }
  }
}
`
	approverPolicy := `
path "sys/control-group/authorize" { capabilities = ["update"] }
path "sys/control-group/request"   { capabilities = ["update"] }
`
	coreConfig := &vault.CoreConfig{
		CredentialBackends: map[string]logical.Factory{
			"userpass": userpass.Factory,
		},
	}
	cluster := vault.NewTestCluster(t, coreConfig, &vault.TestClusterOptions{
		HandlerFunc: Handler,
		NumCores:    1,
	})
	cluster.Start()
	cleanup = cluster.Cleanup

	core := cluster.Cores[0].Core
	vault.TestWaitActive(t, core)
	client = cluster.Cores[0].Client
	rootToken = cluster.RootToken
	client.SetToken(rootToken)

	resp, err := client.Logical().Write("identity/entity", map[string]any{
		"name":     "alice",
		"policies": []string{"secretPolicy"},
	})
	require.NoError(t, err)
	aliceID := resp.Data["id"].(string)

	resp, err = client.Logical().Write("identity/entity", map[string]any{
		"name":     "bob",
		"policies": []string{},
	})
	require.NoError(t, err)
	bobID := resp.Data["id"].(string)

	_, err = client.Logical().Write("identity/group", map[string]any{
		"policies":          []string{"approverPolicy"},
		"member_entity_ids": []string{bobID},
		"name":              "security-approvers",
	})
	require.NoError(t, err)

	require.NoError(t, client.Sys().EnableAuthWithOptions("userpass", &api.EnableAuthOptions{Type: "userpass"}))
	auths, err := client.Sys().ListAuth()
	require.NoError(t, err)
	userpassAccessor := auths["userpass/"].Accessor

	_, err = client.Logical().Write("identity/entity-alias", map[string]any{
		"name": "alice", "mount_accessor": userpassAccessor, "canonical_id": aliceID,
	})
	require.NoError(t, err)
	_, err = client.Logical().Write("identity/entity-alias", map[string]any{
		"name": "bob", "mount_accessor": userpassAccessor, "canonical_id": bobID,
	})
	require.NoError(t, err)

	_, err = client.Logical().Write("auth/userpass/users/alice", map[string]any{"password": "alicepw"})
	require.NoError(t, err)
	_, err = client.Logical().Write("auth/userpass/users/bob", map[string]any{"password": "bobpw"})
	require.NoError(t, err)

	require.NoError(t, client.Sys().PutPolicy("secretPolicy", secretPolicy))
	require.NoError(t, client.Sys().PutPolicy("approverPolicy", approverPolicy))

	authResponse, err := client.Logical().Write("auth/userpass/login/alice", map[string]any{"password": "alicepw"})
	require.NoError(t, err)
	aliceToken = authResponse.Auth.ClientToken
	authResponse, err = client.Logical().Write("auth/userpass/login/bob", map[string]any{"password": "bobpw"})
	require.NoError(t, err)
	bobToken = authResponse.Auth.ClientToken

	client.SetToken(rootToken)
	_, err = client.Logical().Write("secret/foo", map[string]any{"foo": "bar"})
	require.NoError(t, err)
	return client, rootToken, aliceToken, bobToken, cleanup
}

// C18: "A response-wrapping token can be unwrapped at most once ... after which
// the token and its stored payload no longer exist."
//
// An approved control-group wrapping token is unwrapped (the deferred update is
// executed). A second unwrap of the same token must fail; instead it succeeds
// and replays the approved request.
func TestHuntC18_ControlGroupTokenUnwrapsOnlyOnce(t *testing.T) {
	client, rootToken, aliceToken, bobToken, cleanup := huntC18CGSetup(t)
	defer cleanup()

	// alice's update is deferred behind the control group: she gets a wrapping token.
	client.SetToken(aliceToken)
	sec, err := client.Logical().Write("secret/foo", map[string]any{"foo": "baz"})
	require.NoError(t, err)
	require.NotNil(t, sec)
	require.NotNil(t, sec.WrapInfo)
	wrapInfo := sec.WrapInfo

	// bob approves (once).
	client.SetToken(bobToken)
	appr, err := client.Logical().Write("sys/control-group/authorize", map[string]any{"accessor": wrapInfo.Accessor})
	require.NoError(t, err)
	require.Equal(t, true, appr.Data["approved"])

	// First unwrap: executes the approved update.
	client.SetToken(wrapInfo.Token)
	_, err = client.Logical().Write("sys/wrapping/unwrap", nil)
	require.NoError(t, err)

	client.SetToken(rootToken)
	cur, err := client.Logical().Read("secret/foo")
	require.NoError(t, err)
	require.Equal(t, "baz", cur.Data["foo"])

	// Somebody changes the secret afterwards.
	_, err = client.Logical().Write("secret/foo", map[string]any{"foo": "qux"})
	require.NoError(t, err)

	// Second unwrap of the same (single-use) wrapping token, first-party ...
	client.SetToken(wrapInfo.Token)
	_, err2 := client.Logical().Write("sys/wrapping/unwrap", nil)
	// ... and third-party (token in the body).
	client.SetToken(aliceToken)
	_, err3 := client.Logical().Write("sys/wrapping/unwrap", map[string]any{"token": wrapInfo.Token})

	// informational: the same with no client token at all (unauthenticated caller, token in body)
	client.ClearToken()
	_, err4 := client.Logical().Write("sys/wrapping/unwrap", map[string]any{"token": wrapInfo.Token})
	t.Logf("unwrap #4 by an unauthenticated caller (no X-Vault-Token, wrapping token in body): err=%v", err4)

	client.SetToken(rootToken)
	cur, err = client.Logical().Read("secret/foo")
	require.NoError(t, err)

	// The wrapping token must be gone after its one unwrap.
	_, lookupErr := client.Logical().Write("sys/wrapping/lookup", map[string]any{"token": wrapInfo.Token})

	if err2 == nil || err3 == nil || lookupErr == nil || cur.Data["foo"] != "qux" {
		t.Fatalf("wrapping token was unwrapped more than once: second unwrap (client token) err=%v, third unwrap (token in body) err=%v, "+
			"lookup after unwrap err=%v, secret/foo is now %q (was set to \"qux\" after the first unwrap; the approved update was replayed)",
			err2, err3, lookupErr, cur.Data["foo"])
	}
}
