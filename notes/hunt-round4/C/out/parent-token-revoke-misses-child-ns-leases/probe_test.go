package vault

// Probe (found while hunting C05; the clause is C04's "revoking a token revokes
// the leases issued under it" / C05's "a lease ... is revoked once its
// [token's] expiry passes"): ExpirationManager.RevokeByToken finds the token's
// leases through the secondary index (in the TOKEN's namespace) but then calls
// lazyRevokeInternal(ctx, leaseID) with the caller's context, and loadEntry
// reads the lease from the namespace of that CONTEXT. A lease that the token
// created in a child namespace (lease id "<path>/<rand>.<nsID>") is looked for
// in the wrong namespace, not found, and silently skipped.

import (
	"context"
	"sync"
	"testing"
	"time"

	"github.com/openbao/openbao/sdk/v2/logical"
	"github.com/openbao/openbao/v2/internal/helper/namespace"
	be "github.com/openbao/openbao/v2/internal/vault/backend"
)

func TestHuntC05_ParentTokenRevocationMissesChildNamespaceLeases(t *testing.T) {
	var mu sync.Mutex
	revoked := map[string]bool{}
	handler := func(ctx context.Context, req *logical.Request) (*logical.Response, error) {
		switch req.Operation {
		case logical.ReadOperation:
			return &logical.Response{
				Secret: &logical.Secret{
					LeaseOptions: logical.LeaseOptions{TTL: time.Hour, Renewable: true},
					InternalData: map[string]any{"secret_type": "hunt"},
				},
				Data: map[string]any{"user": req.Path},
			}, nil
		case logical.RevokeOperation:
			mu.Lock()
			revoked[req.Data["user"].(string)] = true
			mu.Unlock()
			return nil, nil
		}
		return nil, nil
	}
	conf := &CoreConfig{LogicalBackends: map[string]logical.Factory{
		"hunt": func(ctx context.Context, cfg *logical.BackendConfig) (logical.Backend, error) {
			return &be.Noop{RequestHandler: handler}, nil
		},
	}}
	c, _, root := testCoreUnsealed(t, TestCoreWithSealAndUI(t, conf))
	for deadline := time.Now().Add(10 * time.Second); c.expiration.inRestoreMode(); {
		if time.Now().After(deadline) {
			t.Fatal("still restoring")
		}
		time.Sleep(20 * time.Millisecond)
	}

	ctx := namespace.RootContext(t.Context())
	do := func(op logical.Operation, path, token string, data map[string]any) *logical.Response {
		t.Helper()
		req := &logical.Request{Operation: op, Path: path, ClientToken: token, Data: data}
		if err := c.PopulateTokenEntry(ctx, req); err != nil {
			t.Fatal(err)
		}
		resp, err := c.HandleRequest(ctx, req)
		if err != nil || (resp != nil && resp.IsError()) {
			t.Fatalf("%s %s: %v %#v", op, path, err, resp)
		}
		return resp
	}

	do(logical.UpdateOperation, "sys/namespaces/ns1", root, nil)
	do(logical.UpdateOperation, "sys/mounts/hunt", root, map[string]any{"type": "hunt"})
	do(logical.UpdateOperation, "ns1/sys/mounts/hunt", root, map[string]any{"type": "hunt"})
	do(logical.UpdateOperation, "sys/policy/rd", root, map[string]any{
		"policy": `path "hunt/*" { capabilities = ["read"] }
path "ns1/hunt/*" { capabilities = ["read"] }`,
	})

	for _, how := range []string{"explicit revocation (auth/token/revoke)", "expiry of the token (ttl=2s)"} {
		ttl := "1h"
		if how != "explicit revocation (auth/token/revoke)" {
			ttl = "2s"
		}
		tag := ttl
		tok := do(logical.UpdateOperation, "auth/token/create", root, map[string]any{"policies": []string{"rd"}, "ttl": ttl}).Auth.ClientToken
		sameNs := do(logical.ReadOperation, "hunt/same-ns-"+tag, tok, nil).Secret.LeaseID
		childNs := do(logical.ReadOperation, "ns1/hunt/child-ns-"+tag, tok, nil).Secret.LeaseID
		t.Logf("%s: leases %q and %q", how, sameNs, childNs)

		if ttl == "1h" {
			do(logical.UpdateOperation, "auth/token/revoke", root, map[string]any{"token": tok})
		} else {
			time.Sleep(2500 * time.Millisecond)
		}
		// the token is gone
		if te, err := c.tokenStore.Lookup(ctx, tok); err != nil || te != nil {
			t.Fatalf("%s: token still valid: %v %v", how, te, err)
		}
		time.Sleep(1500 * time.Millisecond) // queued revocations

		mu.Lock()
		same, child := revoked["same-ns-"+tag], revoked["child-ns-"+tag]
		mu.Unlock()
		if !same {
			t.Fatalf("%s: control: the lease in the token's own namespace was not revoked", how)
		}
		if !child {
			ns, _ := c.namespaceStore.GetNamespaceByPath(ctx, "ns1")
			le, _ := c.expiration.loadEntryInternal(namespace.ContextWithNamespace(ctx, ns), childNs, false, false)
			_, pending := c.expiration.pending.Load(childNs)
			t.Errorf("%s: the token is gone and its lease in its own namespace was revoked, but its lease %q in the child namespace was NOT revoked: "+
				"still stored=%v, pending=%v, remaining TTL %v", how, childNs, le != nil, pending, time.Until(le.ExpireTime).Round(time.Minute))
		}
	}
}
