package vault

import (
	"testing"

	"github.com/hashicorp/go-uuid"
	"github.com/openbao/openbao/sdk/v2/logical"
	"github.com/openbao/openbao/v2/internal/helper/namespace"
	"github.com/openbao/openbao/v2/internal/vault/routing"
	"github.com/stretchr/testify/require"
)

// C03: the decision must not depend on the order in which policies are
// attached. Two policies carry a stanza for the same path; one of them has a
// control group. Policies of a token are evaluated in name order, so we swap
// the NAMES of the two policy bodies and compare the decisions.
func TestZZHunt_ControlGroupDependsOnPolicyOrder(t *testing.T) {
	const plain = `path "cg_test/foo" {
		capabilities = ["create", "update", "read"]
	}`
	const controlled = `path "cg_test/foo" {
		capabilities = ["create", "update", "read"]
		control_group = {
			ttl = "15s"
			factor "admin-approval" {
				controlled_capabilities = ["update"]
				identity = {
					group_names = ["admin"]
					approvals = 1
				}
			}
		}
	}`

	run := func(t *testing.T, firstBody, secondBody string) (deferred bool) {
		core, _, root := TestCoreUnsealed(t)
		ctx := namespace.RootContext(t.Context())
		core.logicalBackends["kv"] = PassthroughBackendFactory
		meUUID, _ := uuid.GenerateUUID()
		require.NoError(t, core.mount(ctx, &routing.MountEntry{Table: routing.MountTableType, UUID: meUUID, Path: "cg_test", Type: "kv"}))

		_, err := core.HandleRequest(ctx, &logical.Request{Path: "cg_test/foo", ClientToken: root, Operation: logical.CreateOperation, Data: map[string]any{"zip": "zap"}})
		require.NoError(t, err)

		for name, body := range map[string]string{"aaa": firstBody, "zzz": secondBody} {
			_, err := core.HandleRequest(ctx, &logical.Request{Path: "sys/policies/acl/" + name, Operation: logical.UpdateOperation, ClientToken: root, Data: map[string]any{"policy": body}})
			require.NoError(t, err)
		}
		resp, err := core.HandleRequest(ctx, &logical.Request{Path: "auth/token/create", ClientToken: root, Operation: logical.UpdateOperation,
			Data: map[string]any{"policies": []string{"zzz", "aaa"}, "ttl": "5m", "no_default_policy": true}})
		require.NoError(t, err)
		tok := resp.Auth.ClientToken

		resp, err = core.HandleRequest(ctx, &logical.Request{Path: "cg_test/foo", ClientToken: tok, Operation: logical.UpdateOperation, Data: map[string]any{"zip": "newzap"}})
		require.NoError(t, err)
		deferred = resp != nil && resp.WrapInfo != nil

		// what is stored now?
		resp, err = core.HandleRequest(ctx, &logical.Request{Path: "cg_test/foo", ClientToken: root, Operation: logical.ReadOperation})
		require.NoError(t, err)
		written := resp.Data["zip"] == "newzap"
		if written == deferred {
			t.Fatalf("inconsistent: deferred=%v written=%v", deferred, written)
		}
		return deferred
	}

	var cgFirst, cgSecond bool
	t.Run("controlled-policy-sorts-first", func(t *testing.T) { cgFirst = run(t, controlled, plain) })
	t.Run("controlled-policy-sorts-second", func(t *testing.T) { cgSecond = run(t, plain, controlled) })

	t.Logf("update deferred for approval: policy with control group named aaa -> %v ; named zzz -> %v", cgFirst, cgSecond)
	if cgFirst != cgSecond {
		t.Fatalf("DEFECT: same two policy bodies attached to the token, decision depends on their order (names): "+
			"control group enforced=%v when its policy is evaluated first, enforced=%v when evaluated second", cgFirst, cgSecond)
	}
}

// Same root cause, second field: list_scan_response_keys_filter_path. "The
// first policy which contains a non-empty value wins" (NewACL), so which keys a
// LIST shows depends on the order (names) of the attached policies.
func TestZZHunt_ListFilterDependsOnPolicyOrder(t *testing.T) {
	const common = `
path "cg_test/a" { capabilities = ["read"] }
path "other/b"   { capabilities = ["read"] }
`
	const filterSelf = common + `path "cg_test/*" {
		capabilities = ["list"]
		list_scan_response_keys_filter_path = "{{ .path }}{{ .key }}"
	}`
	const filterOther = common + `path "cg_test/*" {
		capabilities = ["list"]
		list_scan_response_keys_filter_path = "other/{{ .key }}"
	}`

	run := func(t *testing.T, firstBody, secondBody string) []string {
		core, _, root := TestCoreUnsealed(t)
		ctx := namespace.RootContext(t.Context())
		core.logicalBackends["kv"] = PassthroughBackendFactory
		meUUID, _ := uuid.GenerateUUID()
		require.NoError(t, core.mount(ctx, &routing.MountEntry{Table: routing.MountTableType, UUID: meUUID, Path: "cg_test", Type: "kv"}))
		for _, k := range []string{"a", "b"} {
			_, err := core.HandleRequest(ctx, &logical.Request{Path: "cg_test/" + k, ClientToken: root, Operation: logical.CreateOperation, Data: map[string]any{"zip": "zap"}})
			require.NoError(t, err)
		}
		for name, body := range map[string]string{"aaa": firstBody, "zzz": secondBody} {
			_, err := core.HandleRequest(ctx, &logical.Request{Path: "sys/policies/acl/" + name, Operation: logical.UpdateOperation, ClientToken: root, Data: map[string]any{"policy": body}})
			require.NoError(t, err)
		}
		resp, err := core.HandleRequest(ctx, &logical.Request{Path: "auth/token/create", ClientToken: root, Operation: logical.UpdateOperation,
			Data: map[string]any{"policies": []string{"zzz", "aaa"}, "ttl": "5m", "no_default_policy": true}})
		require.NoError(t, err)
		resp, err = core.HandleRequest(ctx, &logical.Request{Path: "cg_test/", ClientToken: resp.Auth.ClientToken, Operation: logical.ListOperation})
		require.NoError(t, err)
		require.NotNil(t, resp)
		return resp.Data["keys"].([]string)
	}
	var k1, k2 []string
	t.Run("self-filter-sorts-first", func(t *testing.T) { k1 = run(t, filterSelf, filterOther) })
	t.Run("self-filter-sorts-second", func(t *testing.T) { k2 = run(t, filterOther, filterSelf) })
	t.Logf("LIST cg_test/ shows %v when the policy with filter {{.path}}{{.key}} is named aaa, %v when it is named zzz", k1, k2)
	require.Equal(t, k1, k2, "DEFECT: same two policy bodies attached, the LIST result depends on their order (names)")
}
