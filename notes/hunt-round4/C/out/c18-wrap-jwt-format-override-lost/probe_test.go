package vault

import (
	"testing"
	"time"

	"github.com/openbao/openbao/sdk/v2/logical"
	"github.com/openbao/openbao/v2/internal/helper/namespace"
)

// handleWrappingWrap: "Do *NOT* allow JWT wrapping tokens to be created through
// this endpoint" (it forces req.WrapInfo.Format = "uuid"). A caller that asks
// for the jwt format on sys/wrapping/wrap must therefore get an ordinary
// (non-JWT) wrapping token.
func TestHuntC18_SysWrappingWrapNeverMintsJWT(t *testing.T) {
	c, _, root := TestCoreUnsealed(t)

	req := &logical.Request{
		Operation:   logical.UpdateOperation,
		Path:        "sys/wrapping/wrap",
		ClientToken: root,
		Data:        map[string]any{"forged": "payload chosen by the caller"},
		WrapInfo:    &logical.RequestWrapInfo{TTL: time.Minute, Format: "jwt"},
	}
	resp, err := c.HandleRequest(namespace.RootContext(nil), req)
	if err != nil {
		t.Fatalf("wrap: %v", err)
	}
	if resp == nil || resp.WrapInfo == nil || resp.WrapInfo.Token == "" {
		t.Fatalf("no wrap info: %#v", resp)
	}
	if IsJWT(resp.WrapInfo.Token) {
		// informational: the forged token looks up exactly like a token minted by
		// the server itself through SystemView.ResponseWrapData(jwt=true)
		lresp, lerr := c.HandleRequest(namespace.RootContext(nil), &logical.Request{
			Operation: logical.UpdateOperation,
			Path:      "sys/wrapping/lookup",
			Data:      map[string]any{"token": resp.WrapInfo.Token},
		})
		if lerr == nil && lresp != nil {
			t.Logf("sys/wrapping/lookup of the forged JWT token: creation_path=%v", lresp.Data["creation_path"])
		}
		t.Fatalf("sys/wrapping/wrap minted a signed JWT wrapping token carrying caller-chosen data: %s", resp.WrapInfo.Token)
	}
}
