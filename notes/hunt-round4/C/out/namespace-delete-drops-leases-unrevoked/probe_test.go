package vault

// C05 probe: deleting a namespace removes the namespace's leases from memory
// (StopNamespace) and from storage (the namespace's own sys/ mount, whose
// storage view contains sys/expire/, is unmounted and wiped BEFORE the user
// mounts are unmounted), so the RevokePrefix of the user mounts finds nothing:
// the dynamic secrets are never revoked at the backend that issued them.

import (
	"context"
	"fmt"
	"sort"
	"sync"
	"testing"
	"time"

	"github.com/openbao/openbao/sdk/v2/logical"
	"github.com/openbao/openbao/v2/internal/helper/namespace"
	be "github.com/openbao/openbao/v2/internal/vault/backend"
)

func TestHuntC05_NamespaceDeletionDropsLeasesUnrevoked(t *testing.T) {
	var mu sync.Mutex
	revoked := map[string]bool{}
	handler := func(ctx context.Context, req *logical.Request) (*logical.Response, error) {
		switch req.Operation {
		case logical.ReadOperation:
			return &logical.Response{
				Secret: &logical.Secret{
					LeaseOptions: logical.LeaseOptions{TTL: time.Hour, Renewable: true},
					InternalData: map[string]any{"secret_type": "hunt"},
				},
				Data: map[string]any{"user": req.Path},
			}, nil
		case logical.RevokeOperation:
			time.Sleep(20 * time.Millisecond) // e.g. DROP ROLE on a database
			mu.Lock()
			revoked[req.Data["user"].(string)] = true
			mu.Unlock()
			return nil, nil
		}
		return nil, nil
	}
	conf := &CoreConfig{LogicalBackends: map[string]logical.Factory{
		"hunt": func(ctx context.Context, cfg *logical.BackendConfig) (logical.Backend, error) {
			return &be.Noop{RequestHandler: handler}, nil
		},
	}}
	c, _, root := testCoreUnsealed(t, TestCoreWithSealAndUI(t, conf))
	for deadline := time.Now().Add(10 * time.Second); c.expiration.inRestoreMode(); {
		if time.Now().After(deadline) {
			t.Fatal("still restoring")
		}
		time.Sleep(20 * time.Millisecond)
	}

	ctx := namespace.RootContext(t.Context())
	do := func(op logical.Operation, path, token string, data map[string]any) *logical.Response {
		t.Helper()
		req := &logical.Request{Operation: op, Path: path, ClientToken: token, Data: data}
		if err := c.PopulateTokenEntry(ctx, req); err != nil {
			t.Fatal(err)
		}
		resp, err := c.HandleRequest(ctx, req)
		if err != nil || (resp != nil && resp.IsError()) {
			t.Fatalf("%s %s: %v %#v", op, path, err, resp)
		}
		return resp
	}

	do(logical.UpdateOperation, "sys/namespaces/ns1", root, nil)
	do(logical.UpdateOperation, "ns1/sys/mounts/hunt", root, map[string]any{"type": "hunt"})
	do(logical.UpdateOperation, "ns1/sys/policy/rd", root, map[string]any{
		"policy": `path "hunt/*" { capabilities = ["read"] }`,
	})
	// a token that lives in ns1
	nsTok := do(logical.UpdateOperation, "ns1/auth/token/create", root, map[string]any{"policies": []string{"rd"}, "ttl": "1h"}).Auth.ClientToken

	// secrets issued in ns1: two to a token of the parent namespace (an
	// operator), forty to the namespace's own token (an application)
	users := map[string]string{"by-parent-token-1": root, "by-parent-token-2": root}
	for i := 0; i < 40; i++ {
		users[fmt.Sprintf("by-ns-token-%02d", i)] = nsTok
	}
	for u, tok := range users {
		id := do(logical.ReadOperation, "ns1/hunt/"+u, tok, nil).Secret.LeaseID
		if _, ok := c.expiration.pending.Load(id); !ok {
			t.Fatalf("precondition: lease %s not pending", id)
		}
	}
	ns, err := c.namespaceStore.GetNamespaceByPath(ctx, "ns1")
	if err != nil || ns == nil {
		t.Fatalf("ns: %v %v", ns, err)
	}
	leaseView := c.expiration.leaseView(ns)
	keys, _ := logical.CollectKeys(t.Context(), leaseView)
	t.Logf("lease entries stored in ns1 before the deletion: %d (42 secrets + 1 token)", len(keys))

	do(logical.DeleteOperation, "sys/namespaces/ns1", root, nil)
	for deadline := time.Now().Add(20 * time.Second); ; {
		n, err := c.namespaceStore.GetNamespaceByPath(ctx, "ns1")
		if err != nil {
			t.Fatal(err)
		}
		if n == nil {
			break
		}
		if time.Now().After(deadline) {
			t.Fatalf("namespace not deleted: %+v", n)
		}
		time.Sleep(50 * time.Millisecond)
	}
	time.Sleep(3 * time.Second) // let any queued revocation finish

	keys, _ = logical.CollectKeys(t.Context(), leaseView)
	inMem := 0
	c.expiration.pending.Range(func(k, _ any) bool {
		if ns.MatchesID(k.(string)) {
			inMem++
		}
		return true
	})
	mu.Lock()
	defer mu.Unlock()
	var lostParent, lostNs []string
	for u, tok := range users {
		if !revoked[u] {
			if tok == root {
				lostParent = append(lostParent, u)
			} else {
				lostNs = append(lostNs, u)
			}
		}
	}
	sort.Strings(lostParent)
	sort.Strings(lostNs)
	t.Logf("namespace deleted; lease entries left in its storage: %d, in the pending map: %d; secrets revoked at the backend: %d of %d",
		len(keys), inMem, len(revoked), len(users))
	if len(lostParent)+len(lostNs) > 0 {
		t.Fatalf("namespace ns1 was deleted 'successfully' and no lease entry of it is left in storage, but %d of %d secrets were NEVER revoked at the issuing backend:\n"+
			"  issued to a parent-namespace token: %d of 2 lost %v\n  issued to the namespace's own token: %d of 40 lost",
			len(lostParent)+len(lostNs), len(users), len(lostParent), lostParent, len(lostNs))
	}
}
