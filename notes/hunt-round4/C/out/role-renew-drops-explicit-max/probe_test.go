package vault

import (
	"testing"
	"time"

	"github.com/openbao/openbao/sdk/v2/logical"
	"github.com/openbao/openbao/v2/internal/helper/namespace"
)

// Property (C07, last clause; API docs of auth/token/create `explicit_max_ttl`:
// "This maximum token TTL cannot be changed later ... the token will never be
// able to be renewed or used past the value set at issue time"):
//
// a token created with the request parameter explicit_max_ttl=1h carries that
// value (creation response and lookup both report it), so no renewal may move
// its expiry past issue time + 1h - whichever of the three create endpoints
// made it.
//
// On the unchanged tree the "control" case (plain auth/token/create) passes and
// both role cases fail: TokenStore.authRenew replaces the token's explicit max
// by the role's token_explicit_max_ttl (0 = none, or a larger value).
func TestHuntC07_RoleTokenRequestExplicitMaxSurvivesRenew(t *testing.T) {
	core, _, root := TestCoreUnsealed(t)
	ctx := namespace.RootContext(t.Context())

	do := func(op logical.Operation, path, token string, data map[string]any) *logical.Response {
		t.Helper()
		req := logical.TestRequest(t, op, path)
		req.ClientToken = token
		req.Data = data
		resp, err := core.HandleRequest(ctx, req)
		if err != nil || (resp != nil && resp.IsError()) {
			t.Fatalf("%s %s: err=%v resp=%#v", op, path, err, resp)
		}
		return resp
	}

	// A role that configures nothing about lifetimes ...
	do(logical.UpdateOperation, "auth/token/roles/plain", root, map[string]any{
		"allowed_policies": "default",
	})
	// ... and one whose own explicit max (2h) is larger than the requested one.
	do(logical.UpdateOperation, "auth/token/roles/twohours", root, map[string]any{
		"allowed_policies":       "default",
		"token_explicit_max_ttl": "2h",
	})

	// The caller is an ordinary token: `update` on the create endpoints, no sudo.
	do(logical.UpdateOperation, "sys/policies/acl/creator", root, map[string]any{
		"policy": `path "auth/token/create" { capabilities = ["update"] }
path "auth/token/create/*" { capabilities = ["update"] }`,
	})
	caller := do(logical.UpdateOperation, "auth/token/create", root, map[string]any{
		"policies": []string{"creator"},
	}).Auth.ClientToken

	for _, tc := range []struct {
		name string
		path string
	}{
		{"control-no-role", "auth/token/create"},
		{"role-without-explicit-max", "auth/token/create/plain"},
		{"role-with-larger-explicit-max", "auth/token/create/twohours"},
	} {
		t.Run(tc.name, func(t *testing.T) {
			resp := do(logical.UpdateOperation, tc.path, caller, map[string]any{
				"policies":         []string{"default"},
				"ttl":              "10m",
				"explicit_max_ttl": "1h",
			})
			tok := resp.Auth.ClientToken
			if resp.Auth.ExplicitMaxTTL != time.Hour {
				t.Fatalf("creation: explicit max = %v, want 1h", resp.Auth.ExplicitMaxTTL)
			}

			lk := do(logical.ReadOperation, "auth/token/lookup-self", tok, nil)
			if got := lk.Data["explicit_max_ttl"].(int64); got != 3600 {
				t.Fatalf("lookup: explicit_max_ttl = %d, want 3600", got)
			}

			// The holder asks for much more than the explicit max.
			rn := do(logical.UpdateOperation, "auth/token/renew-self", tok, map[string]any{
				"increment": "5h",
			})
			if rn.Auth.TTL > time.Hour {
				t.Errorf("renew-self returned TTL %v for a token whose explicit_max_ttl is 1h", rn.Auth.TTL)
			}

			lk = do(logical.ReadOperation, "auth/token/lookup-self", tok, nil)
			issue := lk.Data["issue_time"].(time.Time)
			expire := lk.Data["expire_time"].(time.Time)
			if life := expire.Sub(issue); life > time.Hour+2*time.Second {
				t.Errorf("after renew the token lives %v from issue although lookup still reports explicit_max_ttl=%ds",
					life.Round(time.Second), lk.Data["explicit_max_ttl"].(int64))
			}
		})
	}
}
