package http

import (
	"testing"

	"github.com/openbao/openbao/v2/internal/vault"
)

// C03: denied_parameters / allowed_parameters with numeric values must restrict
// requests sent through the real (JSON) API.
func TestZZHunt_DeniedNumericParameter(t *testing.T) {
	core, _, root := vault.TestCoreUnsealed(t)
	ln, addr := TestServer(t, core)
	defer ln.Close()
	TestServerAuth(t, addr, root)

	pol := `
path "secret/denied" {
  capabilities = ["create", "update"]
  denied_parameters = {
    "level" = [5, "5"]
    "flag"  = [true, "true"]
  }
}
path "secret/allowed" {
  capabilities = ["create", "update"]
  allowed_parameters = {
    "level" = [5, "5"]
  }
}
`
	resp := testHttpPut(t, root, addr+"/v1/sys/policies/acl/numpol", map[string]any{"policy": pol})
	testResponseStatus(t, resp, 204)

	resp = testHttpPost(t, root, addr+"/v1/auth/token/create", map[string]any{"policies": []string{"numpol"}, "no_default_policy": true})
	testResponseStatus(t, resp, 200)
	var out map[string]any
	testResponseBody(t, resp, &out)
	tok := out["auth"].(map[string]any)["client_token"].(string)

	// control: string form is denied
	resp = testHttpPut(t, tok, addr+"/v1/secret/denied", map[string]any{"level": "5"})
	if resp.StatusCode != 403 {
		t.Errorf("control: level=\"5\" expected 403, got %d", resp.StatusCode)
	}
	// control: boolean form is denied
	resp = testHttpPut(t, tok, addr+"/v1/secret/denied", map[string]any{"flag": true})
	if resp.StatusCode != 403 {
		t.Errorf("control: flag=true expected 403, got %d", resp.StatusCode)
	}
	// control: other value allowed
	resp = testHttpPut(t, tok, addr+"/v1/secret/denied", map[string]any{"level": 6})
	if resp.StatusCode != 204 {
		t.Errorf("control: level=6 expected 204, got %d", resp.StatusCode)
	}
	// the denied numeric value, sent as a JSON number
	resp = testHttpPut(t, tok, addr+"/v1/secret/denied", map[string]any{"level": 5})
	if resp.StatusCode != 403 {
		t.Errorf("DEFECT: denied_parameters level=[5,\"5\"]: request {\"level\": 5} expected 403, got %d", resp.StatusCode)
	}
	// allowed numeric value sent as JSON number must be permitted
	resp = testHttpPut(t, tok, addr+"/v1/secret/allowed", map[string]any{"level": 5})
	if resp.StatusCode != 204 {
		t.Errorf("DEFECT(allowed side): allowed_parameters level=[5,\"5\"]: request {\"level\": 5} expected 204, got %d", resp.StatusCode)
	}
}
