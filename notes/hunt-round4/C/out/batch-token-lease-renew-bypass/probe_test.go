package vault

// C05 probe: leaseEntry.renewable() returns (false, nil) for every lease whose
// CREATING token was a batch token, before it looks at expiry or at
// Secret.Renewable; both callers only look at the error. So a non-renewable or
// an already expired lease is renewed through sys/leases/renew when it was
// issued to a batch token.

import (
	"context"
	"errors"
	"sync"
	"testing"
	"time"

	"github.com/openbao/openbao/sdk/v2/logical"
	"github.com/openbao/openbao/v2/internal/helper/namespace"
	be "github.com/openbao/openbao/v2/internal/vault/backend"
)

func huntBRReq(t *testing.T, c *Core, op logical.Operation, path, token string, data map[string]any) (*logical.Response, error) {
	t.Helper()
	ctx := namespace.RootContext(t.Context())
	req := &logical.Request{Operation: op, Path: path, ClientToken: token, Data: data}
	if err := c.PopulateTokenEntry(ctx, req); err != nil {
		t.Fatalf("populate token entry: %v", err)
	}
	return c.HandleRequest(ctx, req)
}

func huntBRDo(t *testing.T, c *Core, op logical.Operation, path, token string, data map[string]any) *logical.Response {
	t.Helper()
	resp, err := huntBRReq(t, c, op, path, token, data)
	if err != nil {
		t.Fatalf("%s %s failed: %v (resp=%#v)", op, path, err, resp)
	}
	if resp != nil && resp.IsError() {
		t.Fatalf("%s %s failed: %v", op, path, resp.Error())
	}
	return resp
}

func huntBRBatchToken(t *testing.T, c *Core, root, pathGlob string) string {
	t.Helper()
	huntBRDo(t, c, logical.UpdateOperation, "sys/policy/rd", root, map[string]any{
		"policy": `path "` + pathGlob + `" { capabilities = ["read"] }`,
	})
	resp := huntBRDo(t, c, logical.UpdateOperation, "auth/token/create", root, map[string]any{
		"type": "batch", "policies": []string{"rd"}, "ttl": "1h",
	})
	if resp.Auth.TokenType != logical.TokenTypeBatch {
		t.Fatalf("not a batch token: %v", resp.Auth.TokenType)
	}
	return resp.Auth.ClientToken
}

// Built-in backends only: the leased passthrough mount "secret/" returns a
// secret without a ttl key as Renewable=false.
func TestHuntC05_BatchTokenLease_NonRenewableIsRenewed(t *testing.T) {
	c, _, root := TestCoreUnsealed(t)

	huntBRDo(t, c, logical.UpdateOperation, "secret/foo", root, map[string]any{"foo": "bar"})

	// control: lease issued to a service token
	resp := huntBRDo(t, c, logical.ReadOperation, "secret/foo", root, nil)
	if resp.Secret == nil || resp.Secret.LeaseID == "" || resp.Secret.Renewable {
		t.Fatalf("precondition: want a non-renewable leased secret, got %#v", resp.Secret)
	}
	resp, err := huntBRReq(t, c, logical.UpdateOperation, "sys/leases/renew", root, map[string]any{"lease_id": resp.Secret.LeaseID, "increment": 60})
	if err == nil && (resp == nil || !resp.IsError()) {
		t.Fatalf("control: non-renewable lease of a service token was renewed: %#v", resp)
	}
	t.Logf("control (lease of a service token): renew refused with %q", resp.Data["error"])

	batch := huntBRBatchToken(t, c, root, "secret/*")
	resp = huntBRDo(t, c, logical.ReadOperation, "secret/foo", batch, nil)
	if resp.Secret == nil || resp.Secret.LeaseID == "" || resp.Secret.Renewable {
		t.Fatalf("precondition: want a non-renewable leased secret, got %#v", resp.Secret)
	}
	lease := resp.Secret.LeaseID

	resp = huntBRDo(t, c, logical.UpdateOperation, "sys/leases/lookup", root, map[string]any{"lease_id": lease})
	t.Logf("sys/leases/lookup of the batch-token lease: renewable=%v ttl=%v", resp.Data["renewable"], resp.Data["ttl"])

	resp, err = huntBRReq(t, c, logical.UpdateOperation, "sys/leases/renew", root, map[string]any{"lease_id": lease, "increment": 60})
	if err == nil && (resp == nil || !resp.IsError()) {
		le, _ := c.expiration.loadEntry(namespace.RootContext(t.Context()), lease)
		t.Fatalf("NON-RENEWABLE lease %q (issued to a batch token) WAS RENEWED: resp.Secret={TTL:%v Renewable:%v}, stored last_renewal_time=%v",
			lease, resp.Secret.TTL, resp.Secret.Renewable, le.LastRenewalTime.Format(time.RFC3339))
	}
}

// Expired lease whose revocation is being retried (target system down): it
// must not be renewable. Needs a backend whose revoke can fail, so a minimal
// dynamic-secret backend is mounted through the normal sys/mounts API.
func TestHuntC05_BatchTokenLease_ExpiredIsRenewed(t *testing.T) {
	var mu sync.Mutex
	revokes := 0
	handler := func(ctx context.Context, req *logical.Request) (*logical.Response, error) {
		switch req.Operation {
		case logical.ReadOperation:
			return &logical.Response{
				Secret: &logical.Secret{
					LeaseOptions: logical.LeaseOptions{TTL: time.Second, Renewable: true},
					InternalData: map[string]any{"secret_type": "hunt"},
				},
				Data: map[string]any{"user": req.Path},
			}, nil
		case logical.RenewOperation:
			return &logical.Response{Secret: req.Secret}, nil
		case logical.RevokeOperation:
			mu.Lock()
			revokes++
			mu.Unlock()
			return nil, errors.New("target system unreachable")
		}
		return nil, nil
	}
	conf := &CoreConfig{LogicalBackends: map[string]logical.Factory{
		"hunt": func(ctx context.Context, cfg *logical.BackendConfig) (logical.Backend, error) {
			return &be.Noop{RequestHandler: handler}, nil
		},
	}}
	c, _, root := testCoreUnsealed(t, TestCoreWithSealAndUI(t, conf))

	huntBRDo(t, c, logical.UpdateOperation, "sys/mounts/hunt", root, map[string]any{"type": "hunt"})
	batch := huntBRBatchToken(t, c, root, "hunt/*")

	svcLease := huntBRDo(t, c, logical.ReadOperation, "hunt/creds-svc", root, nil).Secret.LeaseID
	batchLease := huntBRDo(t, c, logical.ReadOperation, "hunt/creds-batch", batch, nil).Secret.LeaseID

	// both leases expire after 1s; the revocation fails and is retried only
	// after >= 10s, so both stay stored, expired, not (yet) irrevocable.
	deadline := time.Now().Add(8 * time.Second)
	for {
		mu.Lock()
		n := revokes
		mu.Unlock()
		if n >= 2 {
			break
		}
		if time.Now().After(deadline) {
			t.Fatal("revocations were not attempted")
		}
		time.Sleep(50 * time.Millisecond)
	}
	time.Sleep(200 * time.Millisecond)

	ctx := namespace.RootContext(t.Context())
	for _, id := range []string{svcLease, batchLease} {
		le, err := c.expiration.loadEntry(ctx, id)
		if err != nil || le == nil {
			t.Fatalf("lease %s not stored any more: %v", id, err)
		}
		if !le.ExpireTime.Before(time.Now()) || le.isIrrevocable() {
			t.Fatalf("precondition: lease %s should be expired and not irrevocable", id)
		}
	}

	resp, err := huntBRReq(t, c, logical.UpdateOperation, "sys/leases/renew", root, map[string]any{"lease_id": svcLease, "increment": 3600})
	if err == nil && (resp == nil || !resp.IsError()) {
		t.Fatalf("control: expired lease of a service token was renewed")
	}
	t.Logf("control (expired lease of a service token): renew refused with %q", resp.Data["error"])

	resp, err = huntBRReq(t, c, logical.UpdateOperation, "sys/leases/renew", root, map[string]any{"lease_id": batchLease, "increment": 3600})
	if err == nil && (resp == nil || !resp.IsError()) {
		le, _ := c.expiration.loadEntry(ctx, batchLease)
		t.Fatalf("EXPIRED lease %q (issued to a batch token) WAS RENEWED: new TTL %v; stored expire_time is now %v in the future",
			batchLease, resp.Secret.TTL.Round(time.Second), time.Until(le.ExpireTime).Round(time.Second))
	}
}
