package vault

import (
	"testing"

	"github.com/openbao/openbao/sdk/v2/logical"
	"github.com/openbao/openbao/v2/internal/helper/namespace"
)

// Property: a token that the create endpoint hands out as use-limited
// (auth.num_uses = N > 0) stops working after N uses. Batch tokens cannot count
// uses (nothing is stored for them), which is why handleCreateCommon refuses
// `type=batch` together with `num_uses` ("batch tokens cannot have "num_uses"
// set") and tokenutil refuses token_type=batch roles with token_num_uses.
// So for every parameter combination: either the request is refused, or the
// advertised use limit is enforced.
//
// On the unchanged tree both sub-tests fail: the token is issued, the response
// says num_uses=1, and the token keeps working.
func TestHuntC07_BatchTokenAdvertisedNumUsesIsEnforced(t *testing.T) {
	core, _, root := TestCoreUnsealed(t)
	ctx := namespace.RootContext(t.Context())

	do := func(op logical.Operation, path, token string, data map[string]any) (*logical.Response, error) {
		t.Helper()
		req := logical.TestRequest(t, op, path)
		req.ClientToken = token
		req.Data = data
		return core.HandleRequest(ctx, req)
	}
	mustDo := func(op logical.Operation, path, token string, data map[string]any) *logical.Response {
		t.Helper()
		resp, err := do(op, path, token, data)
		if err != nil || (resp != nil && resp.IsError()) {
			t.Fatalf("%s %s: err=%v resp=%#v", op, path, err, resp)
		}
		return resp
	}

	// An ordinary caller: `update` on the create endpoints, no sudo.
	mustDo(logical.UpdateOperation, "sys/policies/acl/creator", root, map[string]any{
		"policy": `path "auth/token/create" { capabilities = ["update"] }
path "auth/token/create/*" { capabilities = ["update"] }`,
	})
	caller := mustDo(logical.UpdateOperation, "auth/token/create", root, map[string]any{
		"policies": []string{"creator"},
	}).Auth.ClientToken

	check := func(t *testing.T, resp *logical.Response, err error) {
		t.Helper()
		if err != nil || resp == nil || resp.IsError() || resp.Auth == nil {
			t.Logf("refused (fine): err=%v", err)
			return
		}
		if resp.Auth.TokenType != logical.TokenTypeBatch {
			t.Fatalf("expected a batch token, got %v", resp.Auth.TokenType)
		}
		if resp.Auth.NumUses == 0 {
			t.Logf("issued without a use limit (fine)")
			return
		}
		t.Logf("issued: type=%v num_uses=%d", resp.Auth.TokenType, resp.Auth.NumUses)
		tok := resp.Auth.ClientToken
		ok := 0
		for i := 0; i < resp.Auth.NumUses+3; i++ {
			r, e := do(logical.ReadOperation, "auth/token/lookup-self", tok, nil)
			if e == nil && r != nil && !r.IsError() {
				ok++
			}
		}
		if ok > resp.Auth.NumUses {
			t.Errorf("token advertised with num_uses=%d served %d requests", resp.Auth.NumUses, ok)
		}
	}

	t.Run("request-param", func(t *testing.T) {
		// control: without the explicit_max_ttl the combination is refused
		resp, err := do(logical.UpdateOperation, "auth/token/create", caller, map[string]any{
			"type": "batch", "num_uses": 1,
		})
		if err == nil && resp != nil && !resp.IsError() {
			t.Fatalf("control: type=batch + num_uses was accepted")
		}
		// an explicit_max_ttl of zero ("none") must not change that
		resp, err = do(logical.UpdateOperation, "auth/token/create", caller, map[string]any{
			"type": "batch", "num_uses": 1, "explicit_max_ttl": "0",
		})
		check(t, resp, err)
	})

	t.Run("role", func(t *testing.T) {
		resp, err := do(logical.UpdateOperation, "auth/token/roles/b", root, map[string]any{
			"token_type": "batch", "orphan": true, "renewable": false, "token_num_uses": 1,
		})
		if err != nil || (resp != nil && resp.IsError()) {
			t.Logf("role refused (fine): %v %v", err, resp)
			return
		}
		resp, err = do(logical.UpdateOperation, "auth/token/create/b", caller, nil)
		check(t, resp, err)
	})
}
