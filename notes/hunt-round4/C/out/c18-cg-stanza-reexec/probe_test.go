package http

import (
	"strings"
	"testing"

	"github.com/openbao/openbao/api/v2"
	"github.com/openbao/openbao/sdk/v2/logical"
	"github.com/openbao/openbao/v2/internal/builtin/credential/userpass"
	"github.com/openbao/openbao/v2/internal/vault"
	"github.com/stretchr/testify/require"
)

// huntC18CGStanzaSetup builds a one-node cluster with
//   - alice (entity, policy secretPolicy: secret/foo read+update, update is
//     governed by a control group needing one approval of "security-approvers")
//   - bob (entity, member of group security-approvers, may call
//     sys/control-group/authorize)
//
// and returns a client plus the tokens. Everything goes through the HTTP API,
// exactly as TestHTTP_ControlGroupWrapping does.
func huntC18CGStanzaSetup(t *testing.T) (client *api.Client, rootToken, aliceToken, bobToken string, cleanup func()) {
	secretPolicy := `
path "secret/foo" {
  capabilities = ["read", "update"]
  control_group = {
    ttl = "5m"
    factor "security-approval" {
      controlled_capabilities = ["update"]
      identity = {
	group_names = ["security-approvers"]
	approvals   = 1
      }
    }
  }
}
`
	approverPolicy := `
path "sys/control-group/authorize" { capabilities = ["update"] }
path "sys/control-group/request"   { capabilities = ["update"] }
`
	coreConfig := &vault.CoreConfig{
		CredentialBackends: map[string]logical.Factory{
			"userpass": userpass.Factory,
		},
	}
	cluster := vault.NewTestCluster(t, coreConfig, &vault.TestClusterOptions{
		HandlerFunc: Handler,
		NumCores:    1,
	})
	cluster.Start()
	cleanup = cluster.Cleanup

	core := cluster.Cores[0].Core
	vault.TestWaitActive(t, core)
	client = cluster.Cores[0].Client
	rootToken = cluster.RootToken
	client.SetToken(rootToken)

	resp, err := client.Logical().Write("identity/entity", map[string]any{
		"name":     "alice",
		"policies": []string{"secretPolicy"},
	})
	require.NoError(t, err)
	aliceID := resp.Data["id"].(string)

	resp, err = client.Logical().Write("identity/entity", map[string]any{
		"name":     "bob",
		"policies": []string{},
	})
	require.NoError(t, err)
	bobID := resp.Data["id"].(string)

	_, err = client.Logical().Write("identity/group", map[string]any{
		"policies":          []string{"approverPolicy"},
		"member_entity_ids": []string{bobID},
		"name":              "security-approvers",
	})
	require.NoError(t, err)

	require.NoError(t, client.Sys().EnableAuthWithOptions("userpass", &api.EnableAuthOptions{Type: "userpass"}))
	auths, err := client.Sys().ListAuth()
	require.NoError(t, err)
	userpassAccessor := auths["userpass/"].Accessor

	_, err = client.Logical().Write("identity/entity-alias", map[string]any{
		"name": "alice", "mount_accessor": userpassAccessor, "canonical_id": aliceID,
	})
	require.NoError(t, err)
	_, err = client.Logical().Write("identity/entity-alias", map[string]any{
		"name": "bob", "mount_accessor": userpassAccessor, "canonical_id": bobID,
	})
	require.NoError(t, err)

	_, err = client.Logical().Write("auth/userpass/users/alice", map[string]any{"password": "alicepw"})
	require.NoError(t, err)
	_, err = client.Logical().Write("auth/userpass/users/bob", map[string]any{"password": "bobpw"})
	require.NoError(t, err)

	require.NoError(t, client.Sys().PutPolicy("secretPolicy", secretPolicy))
	require.NoError(t, client.Sys().PutPolicy("approverPolicy", approverPolicy))

	authResponse, err := client.Logical().Write("auth/userpass/login/alice", map[string]any{"password": "alicepw"})
	require.NoError(t, err)
	aliceToken = authResponse.Auth.ClientToken
	authResponse, err = client.Logical().Write("auth/userpass/login/bob", map[string]any{"password": "bobpw"})
	require.NoError(t, err)
	bobToken = authResponse.Auth.ClientToken

	client.SetToken(rootToken)
	_, err = client.Logical().Write("secret/foo", map[string]any{"foo": "bar"})
	require.NoError(t, err)
	return client, rootToken, aliceToken, bobToken, cleanup
}

// C18: "exactly one [unwrap] obtains the wrapped response ... after which the
// token and its stored payload no longer exist."
//
// No approval is involved here at all: alice performs an ordinary
// response-wrapped READ (X-Vault-Wrap-TTL) of secret/foo. Her policy stanza for
// secret/foo carries a control_group block that governs UPDATE only, so the
// read is executed immediately and its response is wrapped. Unwrapping the
// token must return exactly that stored response.
func TestHuntC18_WrappedReadUnderControlGroupStanzaReturnsStoredResponse(t *testing.T) {
	client, rootToken, aliceToken, _, cleanup := huntC18CGStanzaSetup(t)
	defer cleanup()

	client.SetToken(aliceToken)
	client.SetWrappingLookupFunc(func(op, path string) string { return "5m" })
	sec, err := client.Logical().Read("secret/foo") // secret/foo = {foo: bar} at this time
	require.NoError(t, err)
	require.NotNil(t, sec)
	require.NotNil(t, sec.WrapInfo)
	wrapTok := sec.WrapInfo.Token
	client.SetWrappingLookupFunc(nil)

	// the secret changes after the response was wrapped
	client.SetToken(rootToken)
	_, err = client.Logical().Write("secret/foo", map[string]any{"foo": "later"})
	require.NoError(t, err)

	// unwrap: must reveal the response that was wrapped
	un, err := client.Logical().Unwrap(wrapTok)
	require.NoError(t, err)
	require.NotNil(t, un)

	var violations []string
	if un.Data["foo"] != "bar" {
		msg := "unwrap did not return the wrapped response {foo: bar}; data=" + toString(un.Data)
		if un.WrapInfo != nil {
			msg += "; it returned ANOTHER wrapping token (creation_path " + un.WrapInfo.CreationPath + "), i.e. the wrapped request was executed again"
			// follow the chain a few times: the payload is never obtained
			next := un.WrapInfo.Token
			for i := 0; i < 3 && next != ""; i++ {
				u, e := client.Logical().Unwrap(next)
				if e != nil || u == nil || u.WrapInfo == nil {
					next = ""
					break
				}
				next = u.WrapInfo.Token
			}
			if next != "" {
				msg += "; unwrapping the returned tokens yields wrapping tokens again and again"
			}
		}
		violations = append(violations, msg)
	}
	if len(violations) > 0 {
		t.Fatalf("C18 violated:\n - %s", strings.Join(violations, "\n - "))
	}
}

func toString(m map[string]any) string {
	var sb strings.Builder
	sb.WriteString("{")
	for k, v := range m {
		sb.WriteString(k + ":")
		if s, ok := v.(string); ok {
			sb.WriteString(s)
		} else {
			sb.WriteString("?")
		}
		sb.WriteString(" ")
	}
	sb.WriteString("}")
	return sb.String()
}
