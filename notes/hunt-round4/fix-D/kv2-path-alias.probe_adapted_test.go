package kv

import (
	"strings"
	"testing"

	"github.com/openbao/openbao/sdk/v2/logical"
)

func huntReq2(t *testing.T, b logical.Backend, s logical.Storage, op logical.Operation, path string, data map[string]any) (*logical.Response, error) {
	t.Helper()
	return b.HandleRequest(t.Context(), &logical.Request{Operation: op, Path: path, Storage: s, Data: data})
}

// The metadata entry of a secret is addressed through
// keysutil.encryptedKeyStorage.encryptPath, which path.Clean()s the secret
// name; the per-secret lock and the version blobs (getVersionKey) use the raw
// name.  "app//db" and "app/db" therefore share ONE metadata entry (one version
// counter) but have disjoint version data.
func TestHuntAdapted_KVv2_DoubleSlashAliasCorruptsRegister(t *testing.T) {
	b, s := getBackend(t)

	resp, err := huntReq2(t, b, s, logical.CreateOperation, "data/app/db", map[string]any{"data": map[string]any{"pw": "one"}})
	if err != nil || (resp != nil && resp.IsError()) {
		t.Fatalf("write 1: %v %v", err, resp)
	}
	if v := resp.Data["version"]; v != uint64(1) {
		t.Fatalf("version %v", v)
	}

	// A write to a DIFFERENT name ("//" passes Core's IsRelativePath check).
	resp, err = huntReq2(t, b, s, logical.CreateOperation, "data/app//db", map[string]any{"data": map[string]any{"pw": "two"}})
	if err != nil || (resp != nil && resp.IsError()) {
		t.Logf("write 2 refused: %v %v", err, resp)
	}
	t.Logf("write to app//db answered version=%v", resp.Data["version"])

	// app/db has had exactly one successful write; its current version must
	// still be readable and be that write.
	resp, err = huntReq2(t, b, s, logical.ReadOperation, "data/app/db", nil)
	if err != nil {
		t.Fatalf("read of data/app/db after a write to data/app//db: error %q (metadata says current version exists, its data is stored under the other name)", err)
	}
	if resp == nil || resp.Data["data"] == nil {
		t.Fatalf("read of data/app/db returned %#v", resp)
	}
	got := resp.Data["data"].(map[string]any)["pw"]
	ver := resp.Data["metadata"].(map[string]any)["version"]
	if got != "one" || ver != uint64(1) {
		t.Fatalf("data/app/db: got pw=%v version=%v, want pw=one version=1", got, ver)
	}
}

// DELETE metadata/app/ (delete operations on a path with a trailing slash are
// let through by Core; only create/update/patch are refused) removes the
// metadata of the secret "app" although it names the folder "app/", and leaves
// app's version data behind in storage (it deletes blobs salted for "app/").
func TestHuntAdapted_KVv2_TrailingSlashMetadataDeleteHitsSibling(t *testing.T) {
	b, s := getBackend(t)

	resp, err := huntReq2(t, b, s, logical.CreateOperation, "data/app", map[string]any{"data": map[string]any{"pw": "one"}})
	if err != nil || (resp != nil && resp.IsError()) {
		t.Fatalf("write: %v %v", err, resp)
	}
	resp, err = huntReq2(t, b, s, logical.CreateOperation, "data/app/child", map[string]any{"data": map[string]any{"x": "y"}})
	if err != nil || (resp != nil && resp.IsError()) {
		t.Fatalf("write: %v %v", err, resp)
	}

	// metadata read on the folder name returns the sibling secret's metadata
	resp, err = huntReq2(t, b, s, logical.ReadOperation, "metadata/app/", nil)
	if err == nil && resp != nil {
		t.Errorf("GET metadata/app/ (a folder) returned the metadata of secret app: current_version=%v", resp.Data["current_version"])
	}

	countVersions := func() int {
		keys, err := logical.CollectKeysWithPrefix(t.Context(), s, "test/versions/")
		if err != nil {
			t.Fatal(err)
		}
		return len(keys)
	}
	before := countVersions()

	resp, err = huntReq2(t, b, s, logical.DeleteOperation, "metadata/app/", nil)
	if err != nil || (resp != nil && resp.IsError()) {
		t.Logf("delete refused: %v %v", err, resp)
	}

	resp, err = huntReq2(t, b, s, logical.ReadOperation, "data/app", nil)
	if err != nil {
		t.Fatalf("read: %v", err)
	}
	after := countVersions()
	if resp == nil {
		t.Fatalf("secret app is gone after DELETE metadata/app/ (which names the folder app/, not the secret); version blobs in storage before=%d after=%d (app's data was NOT destroyed)", before, after)
	}
	if !strings.Contains(resp.Data["data"].(map[string]any)["pw"].(string), "one") {
		t.Fatalf("unexpected %v", resp.Data)
	}
}
