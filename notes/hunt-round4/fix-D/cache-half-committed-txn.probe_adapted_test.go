package inmem

import (
	"context"
	"testing"
	"time"

	log "github.com/hashicorp/go-hclog"
	metrics "github.com/hashicorp/go-metrics/compat"
	"github.com/openbao/openbao/sdk/v2/helper/logging"
	"github.com/openbao/openbao/sdk/v2/physical"
)

// gate2Backend lets the test stop a transaction right after the wrapped
// backend's Commit took effect and before Commit returns to the layer above
// (on raft: the time between the FSM apply and the return of applyLog).
type gate2Backend struct {
	physical.TransactionalBackend
	committed chan struct{}
	proceed   chan struct{}
}

type gate2Txn struct {
	physical.Transaction
	g *gate2Backend
}

func (g *gate2Backend) BeginTx(ctx context.Context) (physical.Transaction, error) {
	tx, err := g.TransactionalBackend.BeginTx(ctx)
	if err != nil {
		return nil, err
	}
	return &gate2Txn{tx, g}, nil
}

func (t *gate2Txn) Commit(ctx context.Context) error {
	err := t.Transaction.Commit(ctx)
	close(t.g.committed)
	<-t.g.proceed
	return err
}

// A transaction writes k1 and k2.  The read cache drops its entries for the
// written keys only after the wrapped transaction has committed, one key at a
// time and without holding anything meanwhile: a plain reader that runs in
// between sees the NEW k2 (cache miss -> backend) and afterwards the OLD k1
// (cache hit).  The two writes of one committed transaction do not become
// visible together.
func TestHuntAdapted_CacheShowsHalfOfCommittedTransaction(t *testing.T) {
	ctx := context.Background()
	logger := logging.NewVaultLogger(log.Error)
	inm, err := NewInmem(nil, logger)
	if err != nil {
		t.Fatal(err)
	}
	g := &gate2Backend{TransactionalBackend: inm.(physical.TransactionalBackend), committed: make(chan struct{}), proceed: make(chan struct{})}
	c := physical.NewCache(g, 0, logger, &metrics.BlackholeSink{})
	c.SetEnabled(true)

	// k2 exists in storage but is not in the cache; k1 is cached.
	if err := inm.Put(ctx, &physical.Entry{Key: "k2", Value: []byte("old")}); err != nil {
		t.Fatal(err)
	}
	if err := c.Put(ctx, &physical.Entry{Key: "k1", Value: []byte("old")}); err != nil {
		t.Fatal(err)
	}

	tx, err := c.(physical.TransactionalBackend).BeginTx(ctx)
	if err != nil {
		t.Fatal(err)
	}
	for _, k := range []string{"k1", "k2"} {
		if err := tx.Put(ctx, &physical.Entry{Key: k, Value: []byte("new")}); err != nil {
			t.Fatal(err)
		}
	}
	done := make(chan error, 1)
	go func() { done <- tx.Commit(ctx) }()

	select {
	case <-g.committed:
	case <-time.After(5 * time.Second):
		t.Fatal("commit did not reach the backend")
	}

	// a plain reader going through the same cache, on its own goroutine: a
	// fix may make it wait for the commit to finish, so the gate is opened
	// after the reader had ample time to run inside the window.
	var e1, e2 *physical.Entry
	var rerr error
	rdone := make(chan struct{})
	go func() {
		defer close(rdone)
		if e2, rerr = c.Get(ctx, "k2"); rerr != nil {
			return
		}
		e1, rerr = c.Get(ctx, "k1")
	}()
	select {
	case <-rdone:
	case <-time.After(500 * time.Millisecond):
	}
	close(g.proceed)
	if err := <-done; err != nil {
		t.Fatal(err)
	}
	select {
	case <-rdone:
	case <-time.After(5 * time.Second):
		t.Fatal("reader still blocked after Commit returned")
	}
	if rerr != nil {
		t.Fatal(rerr)
	}
	t.Logf("reader saw k2=%q then k1=%q", e2.Value, e1.Value)

	if string(e2.Value) == "new" && string(e1.Value) == "old" {
		t.Fatalf("reader saw k2=%q and THEN k1=%q: half of a committed transaction", e2.Value, e1.Value)
	}
}
