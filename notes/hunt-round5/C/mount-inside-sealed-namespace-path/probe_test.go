package vault

// Copy into internal/vault/ (package vault).

import (
	"testing"

	"github.com/openbao/openbao/sdk/v2/logical"
	"github.com/openbao/openbao/v2/internal/helper/namespace"
	"github.com/stretchr/testify/require"
)

// A mount of the root namespace must not be placed inside the path space of
// the child namespace ns1/. The router refuses that while ns1/ is unsealed
// ("existing mount at ns1/"); it has to refuse it while ns1/ is sealed, too.
func TestProbe_MountInsideSealedNamespacePath(t *testing.T) {
	c, _, rootToken := TestCoreUnsealed(t)
	ctx := namespace.RootContext(t.Context())

	ns1 := &namespace.Namespace{Path: "ns1/"}
	keys := TestCoreCreateUnsealedNamespaces(t, c, ns1)
	ns1Ctx := namespace.ContextWithNamespace(ctx, ns1)

	mountReq := func() (*logical.Response, error) {
		return c.HandleRequest(ctx, &logical.Request{
			Path:        "sys/mounts/ns1/secret",
			Operation:   logical.UpdateOperation,
			ClientToken: rootToken,
			Data:        map[string]any{"type": "kv"},
		})
	}

	// unsealed: refused
	resp, err := mountReq()
	require.True(t, err != nil || (resp != nil && resp.IsError()), "mount inside an unsealed namespace's path must be refused")

	require.NoError(t, c.namespaceStore.SealNamespace(ctx, "ns1/"))

	// sealed: must be refused as well
	resp, err = mountReq()
	mounted := err == nil && (resp == nil || !resp.IsError())

	for _, key := range keys[ns1.Path] {
		unsealed, err := TestNamespaceUnseal(c, ns1, key)
		require.NoError(t, err)
		if unsealed {
			break
		}
	}
	require.False(t, c.NamespaceSealed(ns1))

	if mounted {
		// Who serves ns1/secret/ now? Write through the namespace ns1 ...
		resp, err = c.HandleRequest(ns1Ctx, &logical.Request{
			Path:        "secret/foo",
			Operation:   logical.UpdateOperation,
			ClientToken: rootToken,
			Data:        map[string]any{"v": "written-in-ns1"},
		})
		require.NoError(t, err)
		require.False(t, resp != nil && resp.IsError())

		me := c.router.MatchingMountEntry(ns1Ctx, "secret/foo")
		require.NotNil(t, me)
		prefix, _ := c.router.MatchingStoragePrefixByAPIPath(ns1Ctx, "secret/foo")
		t.Logf("request in namespace ns1/ to secret/foo is served by mount %q of namespace %q (id %q), storage prefix %q",
			me.Path, me.Namespace.Path, me.NamespaceID, prefix)
		require.Equal(t, ns1.ID, me.NamespaceID, "a request in ns1/ is served by a mount of another namespace")
	}
	require.False(t, mounted, "mounting ns1/secret in the root namespace succeeded while ns1/ was sealed")
}
