package vault

// Copy into internal/vault/ (package vault).

import (
	"testing"

	"github.com/openbao/openbao/sdk/v2/logical"
	"github.com/openbao/openbao/v2/internal/helper/namespace"
	"github.com/stretchr/testify/require"
)

// Probe: a sealable namespace ns1/ with descendants ns1/ns2/ and ns1/ns2/ns3/.
// A secret is written into the cubbyhole-independent "sys/policies" of ns3 (any
// data will do); ns1 is sealed and unsealed with its (valid) unseal keys.
// Everything written before must be there again.
func TestProbe_UnsealNamespaceLoadsGrandchildren(t *testing.T) {
	c, _, rootToken := TestCoreUnsealed(t)
	ctx := namespace.RootContext(t.Context())

	ns1 := &namespace.Namespace{Path: "ns1/"}
	keys := TestCoreCreateUnsealedNamespaces(t, c, ns1)

	ns2 := &namespace.Namespace{Path: "ns1/ns2/"}
	ns3 := &namespace.Namespace{Path: "ns1/ns2/ns3/"}
	TestCoreCreateNamespaces(t, c, ns2, ns3)

	ns3Ctx := namespace.ContextWithNamespace(ctx, ns3)

	// write something into ns3
	resp, err := c.HandleRequest(ns3Ctx, &logical.Request{
		Path:        "sys/policies/acl/mine",
		Operation:   logical.UpdateOperation,
		ClientToken: rootToken,
		Data:        map[string]any{"policy": `path "foo" { capabilities = ["read"] }`},
	})
	require.NoError(t, err)
	require.False(t, resp.IsError())

	list, err := c.namespaceStore.ListNamespaces(namespace.ContextWithNamespace(ctx, ns1), ListNamespaceOpts{Recursive: true})
	require.NoError(t, err)
	require.Len(t, list, 2, "before seal: ns2 and ns3")

	require.NoError(t, c.namespaceStore.SealNamespace(ctx, "ns1/"))
	require.True(t, c.NamespaceSealed(ns1))

	for _, key := range keys[ns1.Path] {
		unsealed, err := TestNamespaceUnseal(c, ns1, key)
		require.NoError(t, err)
		if unsealed {
			break
		}
	}
	require.False(t, c.NamespaceSealed(ns1))

	list, err = c.namespaceStore.ListNamespaces(namespace.ContextWithNamespace(ctx, ns1), ListNamespaceOpts{Recursive: true})
	require.NoError(t, err)
	var paths []string
	for _, n := range list {
		paths = append(paths, n.Path)
	}
	require.ElementsMatch(t, []string{"ns1/ns2/", "ns1/ns2/ns3/"}, paths, "after unseal every descendant must be back")

	resp, err = c.HandleRequest(ns3Ctx, &logical.Request{
		Path:        "sys/policies/acl/mine",
		Operation:   logical.ReadOperation,
		ClientToken: rootToken,
	})
	require.NoError(t, err)
	require.NotNil(t, resp)
	require.False(t, resp.IsError())
}

// Same with a sealable namespace nested in the sealable namespace.
func TestProbe_UnsealNamespaceNestedSealable(t *testing.T) {
	c, _, rootToken := TestCoreUnsealed(t)
	ctx := namespace.RootContext(t.Context())

	ns1 := &namespace.Namespace{Path: "ns1/"}
	keys := TestCoreCreateUnsealedNamespaces(t, c, ns1)
	nsm := &namespace.Namespace{Path: "ns1/mid/"}
	TestCoreCreateNamespaces(t, c, nsm)
	ns2 := &namespace.Namespace{Path: "ns1/mid/ns2/"}
	keys2 := TestCoreCreateUnsealedNamespaces(t, c, ns2)
	ns3 := &namespace.Namespace{Path: "ns1/mid/ns2/ns3/"}
	TestCoreCreateNamespaces(t, c, ns3)

	ns3Ctx := namespace.ContextWithNamespace(ctx, ns3)
	resp, err := c.HandleRequest(ns3Ctx, &logical.Request{
		Path:        "sys/policies/acl/mine",
		Operation:   logical.UpdateOperation,
		ClientToken: rootToken,
		Data:        map[string]any{"policy": `path "foo" { capabilities = ["read"] }`},
	})
	require.NoError(t, err)
	require.False(t, resp.IsError())

	require.NoError(t, c.namespaceStore.SealNamespace(ctx, "ns1/"))
	for _, key := range keys[ns1.Path] {
		unsealed, err := TestNamespaceUnseal(c, ns1, key)
		require.NoError(t, err)
		if unsealed {
			break
		}
	}
	require.False(t, c.NamespaceSealed(ns1))
	require.True(t, c.NamespaceSealed(ns2), "the nested sealable namespace stays sealed")

	for _, key := range keys2[ns2.Path] {
		unsealed, err := TestNamespaceUnseal(c, ns2, key)
		require.NoError(t, err)
		if unsealed {
			break
		}
	}
	require.False(t, c.NamespaceSealed(ns2))

	resp, err = c.HandleRequest(ns3Ctx, &logical.Request{
		Path:        "sys/policies/acl/mine",
		Operation:   logical.ReadOperation,
		ClientToken: rootToken,
	})
	require.NoError(t, err)
	require.NotNil(t, resp)
	require.False(t, resp.IsError())
}
