package vault

// Copy into internal/vault/ (package vault).

import (
	"testing"

	"github.com/openbao/openbao/sdk/v2/logical"
	"github.com/openbao/openbao/v2/internal/helper/namespace"
	"github.com/stretchr/testify/require"
)

// A sealable namespace p/c/ below a plain namespace p/. The unseal of p/c/
// fails after its barrier was opened (its mount table is unreadable), so the
// namespace store seals it again. That must not damage the store: afterwards
// the core has to come up again with its (valid) unseal keys.
func TestProbe_ResealAfterFailedUnsealOfNestedNamespace(t *testing.T) {
	c, coreKeys, _ := TestCoreUnsealed(t)
	ctx := namespace.RootContext(t.Context())

	p := &namespace.Namespace{Path: "p/"}
	TestCoreCreateNamespaces(t, c, p)
	child := &namespace.Namespace{Path: "p/c/"}
	keyShares := TestCoreCreateUnsealedNamespaces(t, c, child)
	pCtx := namespace.ContextWithNamespace(ctx, p)

	// make the mount table of p/c/ unreadable
	view := c.NamespaceView(child)
	uuids, err := view.List(ctx, coreMountConfigPath+"/")
	require.NoError(t, err)
	require.NotEmpty(t, uuids)
	require.NoError(t, view.Put(ctx, &logical.StorageEntry{
		Key:   coreMountConfigPath + "/" + uuids[0],
		Value: []byte("{not valid json}"),
	}))

	require.NoError(t, c.namespaceStore.SealNamespace(pCtx, "c"))
	require.True(t, c.NamespaceSealed(child))

	var unsealErr error
	for _, key := range keyShares["p/c/"] {
		var unsealed bool
		unsealed, unsealErr = c.namespaceStore.UnsealNamespace(pCtx, "c", TestKeyCopy(key))
		if unsealErr != nil || unsealed {
			break
		}
	}
	require.Error(t, unsealErr, "the unseal is expected to fail and to be rolled back")
	require.True(t, c.NamespaceSealed(child))

	// The entry of p/c/ belongs to the namespace store of p/ only.
	rootEntries, err := c.barrier.List(ctx, namespaceStoreSubPath)
	require.NoError(t, err)
	t.Logf("namespace entries stored in the root namespace: %v (p=%s c=%s)", rootEntries, p.UUID, child.UUID)

	// Restart.
	require.NoError(t, TestCoreSeal(c))
	var coreUnsealErr error
	for _, key := range coreKeys {
		var unsealed bool
		unsealed, coreUnsealErr = TestCoreUnseal(c, TestKeyCopy(key))
		if coreUnsealErr != nil || unsealed {
			break
		}
	}
	require.NoError(t, coreUnsealErr, "core must unseal with its valid keys")
	require.False(t, c.Sealed())
	require.NotContains(t, rootEntries, child.UUID)
}
