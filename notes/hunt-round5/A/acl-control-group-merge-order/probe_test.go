// Copy into: internal/vault/   (package vault), e.g. as internal/vault/probe_cg_merge_test.go
// Run:       go test -count=1 -run 'TestProbe_ControlGroupMerge' ./internal/vault/
package vault

import (
	"context"
	"sort"
	"testing"

	"github.com/openbao/openbao/sdk/v2/logical"
	"github.com/openbao/openbao/v2/internal/helper/namespace"
	"github.com/openbao/openbao/v2/internal/vault/policy"
	"github.com/stretchr/testify/require"
)

const probeCGStanza = `
path "secret/foo" {
	capabilities = ["read"]
	control_group = {
		ttl = "30m"
		factor "ops" {
			identity = {
				group_names = ["ops"]
				approvals = 1
			}
		}
	}
}`

const probeCGStanza2 = `
path "secret/foo" {
	capabilities = ["read"]
	control_group = {
		ttl = "10m"
		factor "security" {
			identity = {
				group_names = ["security"]
				approvals = 2
			}
		}
	}
}`

const probePlainStanza = `
path "secret/foo" {
	capabilities = ["read", "update"]
}`

// The ACL built from the same set of policies must not depend on the order in
// which the policies are looked at (C03).
func TestProbe_ControlGroupMerge_ACL(t *testing.T) {
	ns := namespace.RootNamespace
	ctx := namespace.ContextWithNamespace(context.Background(), ns)
	parse := func(name, rules string) *policy.Policy {
		p, err := policy.ParseACLPolicy(ns, rules)
		require.NoError(t, err)
		p.Name = name
		return p
	}
	cg, cg2, plain := parse("cg", probeCGStanza), parse("cg2", probeCGStanza2), parse("plain", probePlainStanza)

	factors := func(order ...*policy.Policy) (bool, []string) {
		acl, err := policy.NewACL(ctx, order)
		require.NoError(t, err)
		res := acl.AllowOperation(ctx, &logical.Request{Operation: logical.ReadOperation, Path: "secret/foo"}, false)
		require.True(t, res.Allowed)
		if res.ControlGroup == nil {
			return false, nil
		}
		var names []string
		for _, f := range res.ControlGroup.Factors {
			names = append(names, f.Name)
		}
		sort.Strings(names)
		return true, names
	}

	hasA, fA := factors(cg, plain)
	hasB, fB := factors(plain, cg)
	t.Logf("[cg, plain]: control group=%v factors=%v;  [plain, cg]: control group=%v factors=%v", hasA, fA, hasB, fB)
	require.True(t, hasA)
	require.Equal(t, hasA, hasB, "the control group of policy 'cg' is lost when policy 'plain' is merged first")
	require.Equal(t, fA, fB)

	_, fC := factors(cg, cg2)
	_, fD := factors(cg2, cg)
	t.Logf("[cg, cg2]: factors=%v;  [cg2, cg]: factors=%v", fC, fD)
	require.Equal(t, fC, fD, "with two control groups on one path the one merged second is dropped")
	require.Equal(t, []string{"ops", "security"}, fC)
}

// End to end: a token holds the policies "a-plain" and "z-cg". Token policies
// are kept sorted, so "a-plain" is merged first and the control group that
// "z-cg" puts on secret/foo silently stops applying: the read is answered
// directly. With the policy names swapped ("a-cg", "z-plain") the very same
// rules defer the request behind the control group.
func TestProbe_ControlGroupMerge_Request(t *testing.T) {
	c, _, root := TestCoreUnsealed(t)
	ctx := namespace.RootContext(context.Background())
	do := func(op logical.Operation, path, token string, data map[string]any) (*logical.Response, error) {
		return c.HandleRequest(ctx, &logical.Request{
			Operation: op, Path: path, ClientToken: token, Data: data,
			Connection: &logical.Connection{RemoteAddr: "127.0.0.1"},
		})
	}
	_, err := do(logical.UpdateOperation, "secret/foo", root, map[string]any{"value": "s3cr3t"})
	require.NoError(t, err)

	for name, rules := range map[string]string{"a-cg": probeCGStanza, "z-plain": probePlainStanza, "a-plain": probePlainStanza, "z-cg": probeCGStanza} {
		_, err := do(logical.UpdateOperation, "sys/policies/acl/"+name, root, map[string]any{"policy": rules})
		require.NoError(t, err)
	}

	read := func(policies []string) *logical.Response {
		resp, err := do(logical.UpdateOperation, "auth/token/create", root, map[string]any{"policies": policies, "no_default_policy": true})
		require.NoError(t, err)
		resp, err = do(logical.ReadOperation, "secret/foo", resp.Auth.ClientToken, nil)
		require.NoError(t, err)
		require.NotNil(t, resp)
		return resp
	}

	// control: control group policy sorts first -> request is deferred, a wrapping token is handed out
	resp := read([]string{"a-cg", "z-plain"})
	require.NotNil(t, resp.WrapInfo, "expected the read to be deferred behind the control group")
	require.Empty(t, resp.Data)

	// same rules, other names -> must behave the same
	resp = read([]string{"a-plain", "z-cg"})
	if resp.WrapInfo == nil {
		t.Fatalf("policies [a-plain z-cg]: the control group on secret/foo was ignored, the secret was returned directly: %v", resp.Data)
	}
}
