// Copy into: internal/vault/   (package vault), e.g. as internal/vault/probe_nsroot_caps_test.go
// Run:       go test -count=1 -run 'TestProbe_NamespaceRootToken' ./internal/vault/
package vault

import (
	"context"
	"testing"

	"github.com/openbao/openbao/sdk/v2/logical"
	"github.com/openbao/openbao/v2/internal/helper/namespace"
	"github.com/openbao/openbao/v2/internal/vault/policy"
	"github.com/stretchr/testify/require"
)

// A token that holds the "root" policy of the child namespace ns1/ (what
// generate-root of a namespace hands out) may do everything below ns1/.
//
//   - sys/capabilities asked in the PARENT namespace for the path
//     "ns1/secret/foo" must therefore not answer ["deny"] (C03: the reported
//     capabilities agree with what is permitted); for a token with an ordinary
//     ns1 policy the very same question is answered correctly.
//   - the token store's sudo check (SudoPrivilege, evaluated in the root
//     context on the fully-qualified path) must see the same root privileges
//     CheckToken sees, i.e. the ns1 root token may create a token with another
//     ns1 policy / an orphan token in ns1, as a root token can in the root
//     namespace.
func TestProbe_NamespaceRootToken(t *testing.T) {
	c, _, root := TestCoreUnsealed(t)
	rootCtx := namespace.RootContext(context.Background())
	ns1 := &namespace.Namespace{Path: "ns1/"}
	TestCoreCreateNamespaces(t, c, ns1)
	ns1Ctx := namespace.ContextWithNamespace(rootCtx, ns1)

	do := func(ctx context.Context, op logical.Operation, path, token string, data map[string]any) (*logical.Response, error) {
		return c.HandleRequest(ctx, &logical.Request{
			Operation: op, Path: path, ClientToken: token, Data: data,
			Connection: &logical.Connection{RemoteAddr: "127.0.0.1"},
		})
	}

	_, err := do(ns1Ctx, logical.UpdateOperation, "sys/mounts/secret", root, map[string]any{"type": "kv"})
	require.NoError(t, err)

	p, err := policy.ParseACLPolicy(ns1, `path "secret/*" { capabilities = ["read"] }`)
	require.NoError(t, err)
	p.Name = "reader"
	require.NoError(t, c.policyStore.SetPolicy(ns1Ctx, p, nil))

	// the namespace's root token
	nsRoot, err := c.tokenStore.rootToken(ns1Ctx)
	require.NoError(t, err)
	require.Equal(t, []string{"root"}, nsRoot.Policies)
	require.Equal(t, ns1.ID, nsRoot.NamespaceID)

	// it really is allowed to write ns1/secret/foo ...
	resp, err := do(ns1Ctx, logical.UpdateOperation, "secret/foo", nsRoot.ID, map[string]any{"a": "b"})
	require.NoError(t, err)
	require.False(t, resp != nil && resp.IsError())

	t.Run("capabilities-from-parent-namespace", func(t *testing.T) {
		// asked inside ns1 the answer is right
		resp, err := do(ns1Ctx, logical.UpdateOperation, "sys/capabilities", root,
			map[string]any{"token": nsRoot.ID, "paths": []string{"secret/foo"}})
		require.NoError(t, err)
		require.Equal(t, []string{"root"}, resp.Data["secret/foo"])

		// control: an ordinary ns1 token asked from the parent namespace is answered correctly
		resp, err = do(ns1Ctx, logical.UpdateOperation, "auth/token/create", root, map[string]any{"policies": []string{"reader"}, "no_default_policy": true})
		require.NoError(t, err)
		reader := resp.Auth.ClientToken
		resp, err = do(rootCtx, logical.UpdateOperation, "sys/capabilities", root,
			map[string]any{"token": reader, "paths": []string{"ns1/secret/foo"}})
		require.NoError(t, err)
		require.Equal(t, []string{"read"}, resp.Data["ns1/secret/foo"])

		// asked in the parent (root) namespace with the namespace-qualified path
		resp, err = do(rootCtx, logical.UpdateOperation, "sys/capabilities", root,
			map[string]any{"token": nsRoot.ID, "paths": []string{"ns1/secret/foo"}})
		require.NoError(t, err)
		require.Equal(t, []string{"root"}, resp.Data["ns1/secret/foo"],
			"the ns1 root token can write ns1/secret/foo, sys/capabilities must not report deny")

		// and it has nothing outside of ns1
		resp, err = do(rootCtx, logical.UpdateOperation, "sys/capabilities", root,
			map[string]any{"token": nsRoot.ID, "paths": []string{"secret/foo", "ns1", "ns10/secret/foo"}})
		require.NoError(t, err)
		require.Equal(t, []string{"deny"}, resp.Data["secret/foo"])
		require.Equal(t, []string{"deny"}, resp.Data["ns1"])
		require.Equal(t, []string{"deny"}, resp.Data["ns10/secret/foo"])
	})

	t.Run("sudo-privilege-in-own-namespace", func(t *testing.T) {
		// root-protected sys paths work (CheckToken sees the root policy) ...
		_, err := do(ns1Ctx, logical.UpdateOperation, "sys/leases/revoke-prefix/secret", nsRoot.ID, nil)
		require.NoError(t, err)

		// ... and so must the token store's own sudo check
		resp, err := do(ns1Ctx, logical.UpdateOperation, "auth/token/create", nsRoot.ID, map[string]any{"policies": []string{"reader"}})
		if resp != nil && resp.IsError() {
			t.Logf("auth/token/create: %v", resp.Error())
		}
		require.NoError(t, err, "ns1 root token must be able to create a token with another ns1 policy")
		require.NotNil(t, resp.Auth)
		require.Contains(t, resp.Auth.Policies, "reader")

		resp, err = do(ns1Ctx, logical.UpdateOperation, "auth/token/create", nsRoot.ID, map[string]any{"policies": []string{"reader"}, "no_parent": true})
		if resp != nil && resp.IsError() {
			t.Logf("auth/token/create no_parent: %v", resp.Error())
		}
		require.NoError(t, err, "ns1 root token must be able to create an orphan token in ns1")
		require.True(t, resp.Auth.Orphan)

		// still no root privileges outside of ns1
		_, err = do(rootCtx, logical.UpdateOperation, "auth/token/create", nsRoot.ID, map[string]any{"policies": []string{"default"}})
		require.Error(t, err)
	})
}
