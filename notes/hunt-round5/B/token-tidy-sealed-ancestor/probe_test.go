// Copy into: internal/vault/  (package vault), e.g. as internal/vault/probe_tidy_sealed_ancestor_test.go
// Run:       go test -count=1 -run TestProbe_TokenTidyBelowSealedNamespace ./internal/vault/
//
// C04: a token in the root namespace has a (non-orphan) child token in ns1/ns2/.
// ns1/ (which has a seal of its own) is sealed, auth/token/tidy is run in the root
// namespace, ns1/ is unsealed again and the parent is revoked. The child must be
// revoked with it.
package vault

import (
	"context"
	"testing"
	"time"

	"github.com/openbao/openbao/sdk/v2/logical"
	"github.com/openbao/openbao/v2/internal/helper/namespace"
	"github.com/openbao/openbao/v2/internal/vault/policy"
	"github.com/stretchr/testify/require"
)

func TestProbe_TokenTidyBelowSealedNamespace(t *testing.T) {
	c, _, root := TestCoreUnsealed(t)
	ctx := namespace.RootContext(context.Background())

	ns1 := &namespace.Namespace{Path: "ns1/"}
	ns2 := &namespace.Namespace{Path: "ns1/ns2/"}
	keys := TestCoreCreateUnsealedNamespaces(t, c, ns1) // ns1/ has its own seal
	TestCoreCreateNamespaces(t, c, ns2)                 // ns1/ns2/ lives behind ns1's barrier
	ctx2 := namespace.ContextWithNamespace(ctx, ns2)

	pol, err := policy.ParseACLPolicy(namespace.RootNamespace, `
name = "admin"
path "*" { capabilities = ["create","read","update","delete","list","sudo"] }
`)
	require.NoError(t, err)
	require.NoError(t, c.policyStore.SetPolicy(ctx, pol, nil))

	create := func(ctx context.Context, parent string, policies ...string) string {
		resp, err := c.HandleRequest(ctx, &logical.Request{
			Path: "auth/token/create", Operation: logical.UpdateOperation, ClientToken: parent,
			Data: map[string]any{"policies": policies, "ttl": "1h"},
		})
		require.NoError(t, err, "resp: %v", resp)
		require.NotNil(t, resp)
		require.NotNil(t, resp.Auth)
		return resp.Auth.ClientToken
	}
	valid := func(ctx context.Context, tok string) bool {
		resp, err := c.HandleRequest(ctx, &logical.Request{Path: "auth/token/lookup-self", Operation: logical.ReadOperation, ClientToken: tok})
		return err == nil && resp != nil && !resp.IsError()
	}

	parent := create(ctx, root, "admin")     // root namespace
	child := create(ctx2, parent, "default") // ns1/ns2/, parent = the root-namespace token
	require.True(t, valid(ctx2, child))

	// Seal ns1/, tidy the root namespace's token store, unseal ns1/ again.
	require.NoError(t, c.namespaceStore.SealNamespace(ctx, "ns1/"))

	resp, err := c.HandleRequest(ctx, &logical.Request{Path: "auth/token/tidy", Operation: logical.UpdateOperation, ClientToken: root})
	require.NoError(t, err, "resp: %v", resp)
	require.Eventually(t, func() bool { // tidy runs in the background
		if c.tokenStore.tidyLock.TryLock() {
			c.tokenStore.tidyLock.Unlock()
			return true
		}
		return false
	}, 10*time.Second, 10*time.Millisecond)

	for _, key := range keys["ns1/"] {
		unsealed, err := TestNamespaceUnseal(c, ns1, key)
		require.NoError(t, err)
		if unsealed {
			break
		}
	}
	require.True(t, valid(ctx2, child), "child token must have survived the seal/unseal")

	// Revoke the parent; this is reported successful.
	resp, err = c.HandleRequest(ctx, &logical.Request{
		Path: "auth/token/revoke", Operation: logical.UpdateOperation, ClientToken: root,
		Data: map[string]any{"token": parent},
	})
	require.NoError(t, err, "resp: %v", resp)
	require.False(t, valid(ctx, parent), "parent must be revoked")

	require.Never(t, func() bool { return valid(ctx2, child) }, time.Second, 50*time.Millisecond,
		"C04: the parent's revocation was reported successful, but its non-orphan child in ns1/ns2/ is still accepted")
}
