// Copy into: internal/vault/  (package vault), e.g. as internal/vault/probe_revoke_deleted_namespace_test.go
// Run:       go test -count=1 -run TestProbe_RevokeAfterSealedNamespaceDeletion ./internal/vault/
//
// C04: a root-namespace token used ns1/ (a child token there / a leased secret
// there). ns1/ is sealed and deleted (sys/namespaces/ns1 DELETE on a sealed
// namespace wipes its storage). Afterwards the root-namespace token must
// still be revocable: auth/token/revoke has to succeed, the token has to be
// rejected and its remaining leases have to be revoked.
package vault

import (
	"context"
	"testing"
	"time"

	"github.com/openbao/openbao/sdk/v2/logical"
	"github.com/openbao/openbao/v2/internal/helper/namespace"
	be "github.com/openbao/openbao/v2/internal/vault/backend"
	"github.com/openbao/openbao/v2/internal/vault/policy"
	"github.com/openbao/openbao/v2/internal/vault/routing"
	"github.com/stretchr/testify/assert"
	"github.com/stretchr/testify/require"
)

func TestProbe_RevokeAfterSealedNamespaceDeletion(t *testing.T) {
	for _, mode := range []string{"child-token-in-deleted-namespace", "lease-in-deleted-namespace"} {
		t.Run(mode, func(t *testing.T) {
			c, _, root := TestCoreUnsealed(t)
			c.logicalBackends["noop"] = func(ctx context.Context, config *logical.BackendConfig) (logical.Backend, error) {
				return &be.Noop{
					RequestHandler: func(_ context.Context, req *logical.Request) (*logical.Response, error) {
						if req.Operation != logical.ReadOperation {
							return nil, nil
						}
						return &logical.Response{
							Secret: &logical.Secret{LeaseOptions: logical.LeaseOptions{TTL: time.Hour, Renewable: true}},
							Data:   map[string]any{"k": "v"},
						}, nil
					},
					DefaultLeaseTTL: time.Hour,
					MaxLeaseTTL:     2 * time.Hour,
					BackendType:     logical.TypeLogical,
				}, nil
			}

			ctx := namespace.RootContext(context.Background())
			ns1 := &namespace.Namespace{Path: "ns1/"}
			TestCoreCreateUnsealedNamespaces(t, c, ns1) // ns1/ has its own seal
			ctx1 := namespace.ContextWithNamespace(ctx, ns1)

			for _, x := range []struct {
				ctx context.Context
				ns  *namespace.Namespace
			}{{ctx, namespace.RootNamespace}, {ctx1, ns1}} {
				require.NoError(t, c.mount(x.ctx, &routing.MountEntry{Table: routing.MountTableType, Path: "foo", Type: "noop"}))
			}
			pol, err := policy.ParseACLPolicy(namespace.RootNamespace, `
name = "admin"
path "*" { capabilities = ["create","read","update","delete","list","sudo"] }
`)
			require.NoError(t, err)
			require.NoError(t, c.policyStore.SetPolicy(ctx, pol, nil))

			create := func(ctx context.Context, parent string, policies ...string) string {
				resp, err := c.HandleRequest(ctx, &logical.Request{
					Path: "auth/token/create", Operation: logical.UpdateOperation, ClientToken: parent,
					Data: map[string]any{"policies": policies, "ttl": "1h"},
				})
				require.NoError(t, err, "resp: %v", resp)
				require.NotNil(t, resp)
				require.NotNil(t, resp.Auth)
				return resp.Auth.ClientToken
			}
			lease := func(ctx context.Context, tok string) string {
				resp, err := c.HandleRequest(ctx, &logical.Request{Path: "foo/creds", Operation: logical.ReadOperation, ClientToken: tok})
				require.NoError(t, err, "resp: %v", resp)
				require.NotNil(t, resp)
				require.NotNil(t, resp.Secret)
				require.NotEmpty(t, resp.Secret.LeaseID)
				return resp.Secret.LeaseID
			}
			valid := func(ctx context.Context, tok string) bool {
				resp, err := c.HandleRequest(ctx, &logical.Request{Path: "auth/token/lookup-self", Operation: logical.ReadOperation, ClientToken: tok})
				return err == nil && resp != nil && !resp.IsError()
			}

			// A token of the root namespace ...
			tok := create(ctx, root, "admin")
			// ... with a leased secret in the root namespace ...
			rootLease := lease(ctx, tok)
			// ... that also was active in ns1/.
			switch mode {
			case "child-token-in-deleted-namespace":
				create(ctx1, tok, "default")
			case "lease-in-deleted-namespace":
				lease(ctx1, tok)
			}

			// Seal ns1/ and delete it.
			s := c.namespaceStore
			require.NoError(t, s.SealNamespace(ctx, "ns1/"))
			_, err = s.DeleteSealedNamespace(ctx, "ns1/", true)
			require.NoError(t, err)
			require.EventuallyWithT(t, func(ct *assert.CollectT) {
				status, err := s.DeleteSealedNamespace(ctx, "ns1/", true)
				require.NoError(ct, err)
				require.Equal(ct, "", status)
			}, 10*time.Second, 10*time.Millisecond)

			// Now revoke the root-namespace token.
			resp, err := c.HandleRequest(ctx, &logical.Request{
				Path: "auth/token/revoke", Operation: logical.UpdateOperation, ClientToken: root,
				Data: map[string]any{"token": tok},
			})
			assert.NoError(t, err, "auth/token/revoke of a root-namespace token fails; resp: %v", resp)
			assert.False(t, valid(ctx, tok), "the token is still accepted after auth/token/revoke")
			assert.EventuallyWithT(t, func(ct *assert.CollectT) {
				out, err := c.expiration.leaseView(namespace.RootNamespace).Get(ctx, rootLease)
				require.NoError(ct, err)
				require.True(ct, out == nil, "the token's lease in the root namespace was not revoked")
			}, 5*time.Second, 50*time.Millisecond)
		})
	}
}
