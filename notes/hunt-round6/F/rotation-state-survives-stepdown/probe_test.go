// PROBE: copy this file into internal/vault/ (package vault) and run
//   go test -count=1 -run TestProbe_ ./internal/vault/

package vault

import (
	"testing"
	"time"

	log "github.com/hashicorp/go-hclog"
	"github.com/hashicorp/go-uuid"
	"github.com/openbao/openbao/sdk/v2/helper/logging"
	"github.com/openbao/openbao/sdk/v2/logical"
	"github.com/openbao/openbao/sdk/v2/physical"
	"github.com/openbao/openbao/sdk/v2/physical/inmem"
	"github.com/openbao/openbao/v2/internal/helper/namespace"
	"github.com/stretchr/testify/require"
)

func probeStepDown(t *testing.T, c *Core, root string) {
	t.Helper()
	req := &logical.Request{ClientToken: root, Path: "sys/step-down"}
	var err error
	req.ID, err = uuid.GenerateUUID()
	require.NoError(t, err)
	require.NoError(t, c.StepDown(namespace.RootContext(t.Context()), req))
}

func probeWaitActive(t *testing.T, c *Core) {
	t.Helper()
	deadline := time.Now().Add(30 * time.Second)
	for time.Now().Before(deadline) {
		if !c.Sealed() && !c.Standby() {
			// perfStandby/active flag flips before postUnseal finished
			TestWaitActive(t, c)
			return
		}
		time.Sleep(50 * time.Millisecond)
	}
	t.Fatal("core did not become active")
}

// Copy into internal/vault/.
//
// A root key rotation (sys/rotate/root) that waits for its verification is
// held in the SealManager of the active node. The legacy rekey state is
// dropped in preSeal when the node steps down ("Clear any rotation
// progress"); the SealManager's is not. When the node becomes active again
// later, the stale ceremony is still live and can be completed, although the
// unseal keys were replaced by another ceremony in between.
func TestProbe_RotationStateSurvivesStepDown(t *testing.T) {
	old := manualStepDownSleepPeriod
	manualStepDownSleepPeriod = 2 * time.Second
	defer func() { manualStepDownSleepPeriod = old }()

	logger := logging.NewVaultLogger(log.Error)
	inm, err := inmem.NewInmemHA(nil, logger)
	require.NoError(t, err)
	inmha, err := inmem.NewInmemHA(nil, logger)
	require.NoError(t, err)

	core1, err := NewCore(&CoreConfig{
		Physical:     inm,
		HAPhysical:   inmha.(physical.HABackend),
		RedirectAddr: "http://127.0.0.1:8200",
	})
	require.NoError(t, err)
	defer core1.Shutdown()
	keys, root := TestCoreInit(t, core1)
	for _, key := range keys {
		_, err := TestCoreUnseal(core1, TestKeyCopy(key))
		require.NoError(t, err)
	}
	TestWaitActive(t, core1)

	core2, err := NewCore(&CoreConfig{
		Physical:     inm,
		HAPhysical:   inmha.(physical.HABackend),
		RedirectAddr: "http://127.0.0.1:8500",
	})
	require.NoError(t, err)
	defer core2.Shutdown()
	for _, key := range keys {
		_, err := TestCoreUnseal(core2, TestKeyCopy(key))
		require.NoError(t, err)
	}
	require.True(t, core2.Standby())

	ns := namespace.RootNamespace
	ctx := namespace.RootContext(t.Context())
	sealType := core1.seal.BarrierType().String()

	// Ceremony 1 on core1: rotate to 3 shares / threshold 2, verification
	// required. The current unseal keys are supplied; the new shares (K1)
	// are handed out and wait for verification.
	_, err = core1.sealManager.InitRotation(ctx, ns, &SealConfig{
		Type: sealType, SecretShares: 3, SecretThreshold: 2, VerificationRequired: true,
	}, false)
	require.NoError(t, err)
	rc := core1.sealManager.RotationConfig(ns.UUID, false)
	var res1 *RekeyResult
	for _, key := range keys {
		res1, err = core1.sealManager.UpdateRotation(ctx, ns, TestKeyCopy(key), rc.Nonce, false)
		require.NoError(t, err)
		if res1 != nil {
			break
		}
	}
	require.NotNil(t, res1)
	require.True(t, res1.VerificationRequired)

	// core1 steps down, core2 takes over.
	probeStepDown(t, core1, root)
	probeWaitActive(t, core2)
	require.True(t, core1.Standby())

	if stale := core1.sealManager.RotationConfig(ns.UUID, false); stale != nil {
		t.Errorf("after stepping down, core1 still holds the rotation ceremony (nonce %s, verification key held: %v)",
			stale.Nonce, len(stale.VerificationKey) > 0)
	}

	// Ceremony 2 on the new active node: nothing is in progress there; it
	// completes and replaces the unseal keys (K2).
	_, err = core2.sealManager.InitRotation(ctx, ns, &SealConfig{
		Type: sealType, SecretShares: 3, SecretThreshold: 2,
	}, false)
	require.NoError(t, err)
	rc2 := core2.sealManager.RotationConfig(ns.UUID, false)
	var res2 *RekeyResult
	for _, key := range keys {
		res2, err = core2.sealManager.UpdateRotation(ctx, ns, TestKeyCopy(key), rc2.Nonce, false)
		require.NoError(t, err)
		if res2 != nil {
			break
		}
	}
	require.NotNil(t, res2)
	require.Len(t, res2.SecretShares, 3)

	// core2 steps down, core1 becomes active again.
	probeStepDown(t, core2, root)
	probeWaitActive(t, core1)

	// The shares of the abandoned ceremony 1 complete it on core1: nobody
	// supplied a single share of the CURRENT unseal key (K2).
	var done *RekeyVerifyResult
	for i := 0; i < 2; i++ {
		done, err = core1.sealManager.VerifyRotation(ctx, ns, TestKeyCopy(res1.SecretShares[i]), res1.VerificationNonce, false)
		if err != nil {
			break
		}
	}
	if err == nil && done != nil && done.Complete {
		t.Errorf("the ceremony abandoned at step-down was completed after the unseal keys had been replaced by another ceremony")

		// The shares handed out by the ceremony that did complete no longer unseal.
		require.NoError(t, core2.Seal(root))
		for i := 0; i < 2; i++ {
			_, uerr := TestCoreUnseal(core2, TestKeyCopy(res2.SecretShares[i]))
			if uerr != nil {
				t.Errorf("unseal with the shares of the completed ceremony 2: %v", uerr)
				break
			}
		}
		if core2.Sealed() {
			t.Errorf("the shares of the completed ceremony 2 no longer unseal")
		}
	} else {
		t.Logf("verify on core1: done=%v err=%v", done, err)
	}
}
