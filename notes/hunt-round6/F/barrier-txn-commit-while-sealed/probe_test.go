// PROBE: copy this file into internal/vault/barrier/ (package barrier) and run
//   go test -count=1 -run TestProbe_ ./internal/vault/barrier/

package barrier

import (
	"testing"

	"github.com/openbao/openbao/sdk/v2/logical"
	"github.com/openbao/openbao/sdk/v2/physical/inmem"
	"github.com/stretchr/testify/require"
)

// Copy into internal/vault/barrier/.
//
// A sealed barrier serves no write. A storage transaction that was begun and
// written to while the barrier was unsealed must not be able to land its
// writes in the physical backend once the barrier has been sealed: every
// other operation of the transaction (Get, Put, Delete, List) answers
// ErrBarrierSealed from that moment on, Commit is the only one that does not
// look at the seal state.
func TestProbe_TransactionCommitOnSealedBarrier(t *testing.T) {
	ctx := t.Context()

	inm, err := inmem.NewInmem(nil, logger)
	require.NoError(t, err)
	b := NewAESGCMBarrier(inm, nil).(*TransactionalAESGCMBarrier)

	key, _ := b.GenerateKey()
	require.NoError(t, b.Initialize(ctx, key, nil))
	require.NoError(t, b.Unseal(ctx, key))

	txn, err := b.BeginTx(ctx)
	require.NoError(t, err)
	require.NoError(t, txn.Put(ctx, &logical.StorageEntry{Key: "secret/foo", Value: []byte("bar")}))

	// The barrier is sealed while the transaction is still open.
	require.NoError(t, b.Seal())

	// Every other operation is refused now ...
	_, err = txn.Get(ctx, "secret/foo")
	require.ErrorIs(t, err, ErrBarrierSealed)
	require.ErrorIs(t, txn.Put(ctx, &logical.StorageEntry{Key: "secret/foo2", Value: []byte("bar")}), ErrBarrierSealed)

	// ... but the commit goes through and the write reaches the physical
	// backend of a sealed barrier.
	commitErr := txn.Commit(ctx)
	pe, err := inm.Get(ctx, "secret/foo")
	require.NoError(t, err)
	if commitErr == nil || pe != nil {
		t.Fatalf("sealed barrier served a write: Commit err=%v, physical entry present=%v", commitErr, pe != nil)
	}
}
