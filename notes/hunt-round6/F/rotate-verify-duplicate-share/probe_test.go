// PROBE: copy this file into internal/vault/ (package vault) and run
//   go test -count=1 -run TestProbe_ ./internal/vault/

package vault

import (
	"testing"

	"github.com/openbao/openbao/v2/internal/helper/namespace"
	"github.com/stretchr/testify/require"
)

// Copy into internal/vault/.
//
// sys/rotate/root/verify (SealManager.VerifyRotation): the same new share
// supplied twice must be refused ("already been provided") and must not count
// towards the verification threshold, as sys/rekey/verify (Core.RekeyVerify)
// and the rotation update itself do.
func TestProbe_VerifyRotation_DuplicateShareCounts(t *testing.T) {
	bc := &SealConfig{SecretShares: 1, SecretThreshold: 1}
	c, rootKeys, _, _ := TestCoreUnsealedWithConfigs(t, bc, nil)
	ns := namespace.RootNamespace
	ctx := namespace.RootContext(t.Context())
	sm := c.sealManager

	newConf := &SealConfig{
		Type:                 c.seal.BarrierType().String(),
		SecretShares:         5,
		SecretThreshold:      3,
		VerificationRequired: true,
	}
	_, err := sm.InitRotation(ctx, ns, newConf, false)
	require.NoError(t, err)
	rotConfig := sm.RotationConfig(ns.UUID, false)
	require.NotNil(t, rotConfig)

	result, err := sm.UpdateRotation(ctx, ns, TestKeyCopy(rootKeys[0]), rotConfig.Nonce, false)
	require.NoError(t, err)
	require.NotNil(t, result)
	require.True(t, result.VerificationRequired)
	require.Len(t, result.SecretShares, 5)

	share := result.SecretShares[0]

	// First copy of the share: accepted, 1 of 3.
	ret, err := sm.VerifyRotation(ctx, ns, TestKeyCopy(share), result.VerificationNonce, false)
	require.NoError(t, err)
	require.Nil(t, ret)
	require.Equal(t, 1, len(sm.RotationConfig(ns.UUID, false).VerificationProgress))

	// The very same share again.
	ret, err = sm.VerifyRotation(ctx, ns, TestKeyCopy(share), result.VerificationNonce, false)
	progress := len(sm.RotationConfig(ns.UUID, false).VerificationProgress)
	if err == nil {
		t.Errorf("a share that was already provided was accepted again (ret=%v); verification progress is now %d of %d with ONE distinct share",
			ret, progress, newConf.SecretThreshold)
	}

	// And a third time: the threshold of 3 is "reached" with one share; the
	// attempt dies inside shamir.Combine with an internal error, the progress
	// is dropped and the verification nonce is rotated.
	nonceBefore := sm.RotationConfig(ns.UUID, false).VerificationNonce
	_, err = sm.VerifyRotation(ctx, ns, TestKeyCopy(share), result.VerificationNonce, false)
	t.Logf("third submission: err=%v", err)
	nonceAfter := sm.RotationConfig(ns.UUID, false).VerificationNonce
	if nonceBefore != nonceAfter {
		t.Errorf("verification attempt was run (and thrown away, nonce rotated %s -> %s) on three copies of one share", nonceBefore, nonceAfter)
	}
}
