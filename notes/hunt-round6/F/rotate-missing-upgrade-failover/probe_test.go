// PROBE: copy this file into internal/vault/ (package vault) and run
//   go test -count=1 -run TestProbe_ ./internal/vault/

package vault

import (
	"context"
	"errors"
	"strings"
	"sync/atomic"
	"testing"
	"time"

	log "github.com/hashicorp/go-hclog"
	"github.com/openbao/openbao/sdk/v2/helper/logging"
	"github.com/openbao/openbao/sdk/v2/logical"
	"github.com/openbao/openbao/sdk/v2/physical"
	"github.com/openbao/openbao/sdk/v2/physical/inmem"
	"github.com/openbao/openbao/v2/internal/helper/namespace"
)

// failUpgradePut is a physical backend that refuses writes below
// core/upgrade/ while armed: one transient storage error at the moment the
// active node writes the upgrade path of a key rotation.
type failUpgradePut struct {
	physical.Backend
	armed atomic.Bool
	hits  atomic.Int32
}

func (f *failUpgradePut) Put(ctx context.Context, e *physical.Entry) error {
	if f.armed.Load() && strings.HasPrefix(e.Key, "core/upgrade/") {
		f.hits.Add(1)
		return errors.New("injected: storage unavailable")
	}
	return f.Backend.Put(ctx, e)
}

// Copy into internal/vault/.
//
// sys/rotate on the active node succeeds (the keyring with term 2 and the
// root-key entry encrypted under term 2 are persisted), the write of the
// upgrade path core/upgrade/1 fails and is only logged. The unsealed standby
// must still be able to take over when the active node goes away.
func TestProbe_RotateWithoutUpgradePath_StandbyTakesOver(t *testing.T) {
	logger := logging.NewVaultLogger(log.Error)

	inmRaw, err := inmem.NewInmemHA(nil, logger)
	if err != nil {
		t.Fatal(err)
	}
	inm := &failUpgradePut{Backend: inmRaw}
	inmha, err := inmem.NewInmemHA(nil, logger)
	if err != nil {
		t.Fatal(err)
	}

	core, err := NewCore(&CoreConfig{
		Physical:     inm,
		HAPhysical:   inmha.(physical.HABackend),
		RedirectAddr: "http://127.0.0.1:8200",
	})
	if err != nil {
		t.Fatalf("err: %v", err)
	}
	defer core.Shutdown()
	keys, root := TestCoreInit(t, core)
	for _, key := range keys {
		if _, err := TestCoreUnseal(core, TestKeyCopy(key)); err != nil {
			t.Fatalf("unseal err: %s", err)
		}
	}
	TestWaitActive(t, core)

	core2, err := NewCore(&CoreConfig{
		Physical:     inm,
		HAPhysical:   inmha.(physical.HABackend),
		RedirectAddr: "http://127.0.0.1:8500",
	})
	if err != nil {
		t.Fatalf("err: %v", err)
	}
	defer core2.Shutdown()
	for _, key := range keys {
		if _, err := TestCoreUnseal(core2, TestKeyCopy(key)); err != nil {
			t.Fatalf("unseal err: %s", err)
		}
	}
	if core2.Sealed() {
		t.Fatal("standby did not unseal")
	}

	// Rotate the encryption key; the write of the upgrade path fails.
	inm.armed.Store(true)
	req := &logical.Request{
		Operation:   logical.UpdateOperation,
		Path:        "sys/rotate",
		ClientToken: root,
	}
	if _, err = core.HandleRequest(namespace.RootContext(t.Context()), req); err != nil {
		t.Fatalf("sys/rotate: %v", err)
	}
	inm.armed.Store(false)
	if inm.hits.Load() == 0 {
		t.Fatal("the upgrade path write was not hit")
	}

	// A value written under the new term.
	req = &logical.Request{
		Operation:   logical.UpdateOperation,
		Path:        "cubbyhole/foo",
		ClientToken: root,
		Data:        map[string]any{"v": "after-rotate"},
	}
	if _, err = core.HandleRequest(namespace.RootContext(t.Context()), req); err != nil {
		t.Fatalf("write: %v", err)
	}

	// The active node goes away.
	if err = core.Seal(root); err != nil {
		t.Fatalf("err: %v", err)
	}

	// The standby has to become active and serve the value.
	deadline := time.Now().Add(20 * time.Second)
	for time.Now().Before(deadline) {
		if core2.Sealed() {
			t.Fatalf("standby sealed itself instead of taking over (it holds the valid root key; the keyring in storage is decryptable with it)")
		}
		if !core2.Standby() {
			break
		}
		time.Sleep(100 * time.Millisecond)
	}
	if core2.Standby() {
		t.Fatal("standby never became active")
	}

	req = &logical.Request{
		Operation:   logical.ReadOperation,
		Path:        "cubbyhole/foo",
		ClientToken: root,
	}
	resp, err := core2.HandleRequest(namespace.RootContext(t.Context()), req)
	if err != nil {
		t.Fatalf("read on new active: %v", err)
	}
	if resp == nil || resp.Data["v"] != "after-rotate" {
		t.Fatalf("bad: %#v", resp)
	}
}
