// Copy into: internal/vault/   (package vault)
// Run:       go test -count=1 -run TestProbe_LoginBatchTokenWithUseLimit ./internal/vault/
//
// A userpass user has token_num_uses=2. The auth mount is tuned to
// token_type=batch, so the router turns the login's token into a batch token.
// Batch tokens are not stored, so the use count cannot be enforced: the login
// reports num_uses=2 but the token serves any number of requests.
package vault

import (
	"testing"

	"github.com/openbao/openbao/sdk/v2/logical"
	credUserpass "github.com/openbao/openbao/v2/internal/builtin/credential/userpass"
	"github.com/openbao/openbao/v2/internal/helper/namespace"
)

func TestProbe_LoginBatchTokenWithUseLimit(t *testing.T) {
	core, _, root := TestCoreUnsealed(t)
	ctx := namespace.RootContext(t.Context())

	core.credentialBackends["userpass"] = credUserpass.Factory

	do := func(req *logical.Request) *logical.Response {
		t.Helper()
		if req.Connection == nil {
			req.Connection = &logical.Connection{}
		}
		resp, err := core.HandleRequest(ctx, req)
		if err != nil || (resp != nil && resp.IsError()) {
			t.Fatalf("%s %s: err: %v\nresp: %#v", req.Operation, req.Path, err, resp)
		}
		return resp
	}

	do(&logical.Request{
		Path: "sys/auth/userpass", ClientToken: root, Operation: logical.UpdateOperation,
		Data: map[string]any{"type": "userpass"},
	})
	do(&logical.Request{
		Path: "auth/userpass/users/test", ClientToken: root, Operation: logical.UpdateOperation,
		Data: map[string]any{"password": "foo", "token_policies": "default", "token_num_uses": 2},
	})
	// Force batch tokens on the mount.
	do(&logical.Request{
		Path: "sys/auth/userpass/tune", ClientToken: root, Operation: logical.UpdateOperation,
		Data: map[string]any{"token_type": "batch"},
	})

	req := &logical.Request{
		Path: "auth/userpass/login/test", Operation: logical.UpdateOperation,
		Data:       map[string]any{"password": "foo"},
		Connection: &logical.Connection{},
	}
	resp, err := core.HandleRequest(ctx, req)
	if err != nil || resp == nil || resp.IsError() || resp.Auth == nil {
		// Refusing the login is the correct outcome.
		t.Logf("login refused: err=%v resp=%#v", err, resp)
		return
	}
	t.Logf("login: token_type=%v num_uses=%d", resp.Auth.TokenType, resp.Auth.NumUses)
	if resp.Auth.NumUses == 0 {
		// Also acceptable: the token is not advertised as use-limited.
		return
	}
	tok := resp.Auth.ClientToken

	ok := 0
	for i := 0; i < 5; i++ {
		r := &logical.Request{
			Path: "auth/token/lookup-self", ClientToken: tok, Operation: logical.ReadOperation,
			Connection: &logical.Connection{},
		}
		resp, err := core.HandleRequest(ctx, r)
		if err == nil && resp != nil && !resp.IsError() {
			ok++
		}
	}
	if ok > 2 {
		t.Fatalf("token issued with num_uses=%d authorised %d requests", 2, ok)
	}
}
