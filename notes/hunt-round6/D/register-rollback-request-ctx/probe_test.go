// Copy into: internal/vault/   (package vault)
// Run:       go test -count=1 -run TestProbe_RegisterRollbackWithCancelledRequest ./internal/vault/
//
// ExpirationManager.Register persists the lease and then its token index
// entry. The request context is cancelled (client went away / request timeout)
// after the lease record was written, so the index write fails. Register must
// then roll back: revoke the secret, delete the lease record, delete the
// index. The test checks what is left in storage.
package vault

import (
	"context"
	"strings"
	"sync"
	"testing"
	"time"

	"github.com/hashicorp/go-uuid"
	"github.com/openbao/openbao/sdk/v2/logical"
	"github.com/openbao/openbao/sdk/v2/physical"
	"github.com/openbao/openbao/sdk/v2/physical/inmem"
	"github.com/openbao/openbao/v2/internal/helper/namespace"
	be "github.com/openbao/openbao/v2/internal/vault/backend"
	"github.com/openbao/openbao/v2/internal/vault/barrier"
	"github.com/openbao/openbao/v2/internal/vault/routing"
)

// probeCancelOnLeasePut is a pass-through physical backend that calls a
// function after a lease record below prod/aws/ has been written; nothing of
// the code under test is replaced.
type probeCancelOnLeasePut struct {
	physical.Backend
	mu       sync.Mutex
	afterPut func()
}

func (b *probeCancelOnLeasePut) Put(ctx context.Context, e *physical.Entry) error {
	err := b.Backend.Put(ctx, e)
	if err == nil && strings.HasPrefix(e.Key, "sys/expire/id/prod/aws/") {
		b.mu.Lock()
		f := b.afterPut
		b.afterPut = nil
		b.mu.Unlock()
		if f != nil {
			f()
		}
	}
	return err
}

func TestProbe_RegisterRollbackWithCancelledRequest(t *testing.T) {
	inm, err := inmem.NewInmem(nil, logger)
	if err != nil {
		t.Fatal(err)
	}
	phys := &probeCancelOnLeasePut{Backend: inm}

	c, _, _ := TestCoreUnsealedBackend(t, phys)
	exp := c.expiration
	for exp.inRestoreMode() {
		time.Sleep(20 * time.Millisecond)
	}

	noop := &be.Noop{}
	view := barrier.NewView(c.barrier, "logical/")
	meUUID, err := uuid.GenerateUUID()
	if err != nil {
		t.Fatal(err)
	}
	err = exp.router.Mount(noop, "prod/aws/", &routing.MountEntry{Path: "prod/aws/", Type: "noop", UUID: meUUID, Accessor: "noop-accessor", Namespace: namespace.RootNamespace}, view)
	if err != nil {
		t.Fatal(err)
	}

	req := &logical.Request{
		Operation:   logical.ReadOperation,
		Path:        "prod/aws/foo",
		ClientToken: "foobar",
	}
	req.SetTokenEntry(&logical.TokenEntry{ID: "foobar", NamespaceID: "root"})
	resp := &logical.Response{
		Secret: &logical.Secret{
			LeaseOptions: logical.LeaseOptions{TTL: time.Hour},
		},
		Data: map[string]any{"access_key": "xyz", "secret_key": "abcd"},
	}

	// The request's context: cancelled right after the lease record was written.
	reqCtx, cancel := context.WithCancel(namespace.RootContext(t.Context()))
	defer cancel()
	phys.mu.Lock()
	phys.afterPut = cancel
	phys.mu.Unlock()

	id, err := exp.Register(reqCtx, req, resp, "")
	if err == nil {
		t.Fatalf("expected Register to fail, got lease %q", id)
	}
	t.Logf("Register error: %v", err)

	// The secret must have been revoked at its backend.
	revoked := false
	noop.Lock()
	for _, r := range noop.Requests {
		if r.Operation == logical.RevokeOperation {
			revoked = true
		}
	}
	noop.Unlock()
	if !revoked {
		t.Errorf("the freshly generated secret was not revoked at its backend")
	}

	// No partial lease record may remain.
	bg := namespace.RootContext(context.Background())
	leases, err := logical.CollectKeys(bg, exp.leaseView(namespace.RootNamespace))
	if err != nil {
		t.Fatal(err)
	}
	var left []string
	for _, l := range leases {
		if strings.HasPrefix(l, "prod/aws/") {
			left = append(left, l)
		}
	}
	if len(left) != 0 {
		_, tracked := exp.pending.Load(left[0])
		t.Fatalf("Register failed and revoked the secret, but its lease record is still in storage: %v (tracked in the pending map: %v)", left, tracked)
	}
}
