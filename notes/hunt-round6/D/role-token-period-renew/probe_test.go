// Copy into: internal/vault/   (package vault)
// Run:       go test -count=1 -run TestProbe_RoleTokenOwnPeriodKeptOnRenew ./internal/vault/
//
// A token created against a token role with a `period` request parameter that
// is SHORTER than the role's token_period is issued with the lesser period
// (as documented by the warning the create call returns). On renewal the
// token's own period must keep capping it.
package vault

import (
	"testing"
	"time"

	"github.com/openbao/openbao/v2/internal/helper/namespace"
	"github.com/openbao/openbao/sdk/v2/logical"
)

func TestProbe_RoleTokenOwnPeriodKeptOnRenew(t *testing.T) {
	core, _, root := TestCoreUnsealed(t)
	ctx := namespace.RootContext(t.Context())

	// role: period 1h
	req := logical.TestRequest(t, logical.UpdateOperation, "auth/token/roles/test")
	req.ClientToken = root
	req.Data = map[string]any{"period": "1h"}
	resp, err := core.HandleRequest(ctx, req)
	if err != nil || (resp != nil && resp.IsError()) {
		t.Fatalf("err: %v\nresp: %#v", err, resp)
	}

	// token against the role, own period 60s (caller is root => sudo)
	req = logical.TestRequest(t, logical.UpdateOperation, "auth/token/create/test")
	req.ClientToken = root
	req.Data = map[string]any{"period": "60s", "policies": []string{"default"}}
	resp, err = core.HandleRequest(ctx, req)
	if err != nil || resp == nil || resp.IsError() || resp.Auth == nil {
		t.Fatalf("err: %v\nresp: %#v", err, resp)
	}
	tok := resp.Auth.ClientToken
	if resp.Auth.TTL > 60*time.Second {
		t.Fatalf("creation TTL %v exceeds the 60s period", resp.Auth.TTL)
	}
	t.Logf("created: ttl=%v period=%v warnings=%v", resp.Auth.TTL, resp.Auth.Period, resp.Warnings)

	lookup := func() (ttl int64, period any) {
		r := logical.TestRequest(t, logical.ReadOperation, "auth/token/lookup-self")
		r.ClientToken = tok
		resp, err := core.HandleRequest(ctx, r)
		if err != nil || resp == nil || resp.IsError() {
			t.Fatalf("lookup err: %v\nresp: %#v", err, resp)
		}
		return resp.Data["ttl"].(int64), resp.Data["period"]
	}
	ttl, period := lookup()
	t.Logf("before renew: ttl=%d period=%v", ttl, period)

	// renew
	req = logical.TestRequest(t, logical.UpdateOperation, "auth/token/renew-self")
	req.ClientToken = tok
	resp, err = core.HandleRequest(ctx, req)
	if err != nil || resp == nil || resp.IsError() || resp.Auth == nil {
		t.Fatalf("renew err: %v\nresp: %#v", err, resp)
	}
	t.Logf("renew response: ttl=%v period=%v", resp.Auth.TTL, resp.Auth.Period)

	ttl, period = lookup()
	t.Logf("after renew: ttl=%d period=%v", ttl, period)
	if ttl > 60 {
		t.Fatalf("periodic token with period 60s has TTL %ds after renewal (role period 1h was used instead of the token's own lesser period)", ttl)
	}
}
