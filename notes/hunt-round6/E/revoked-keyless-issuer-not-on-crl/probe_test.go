// Copy into: internal/builtin/logical/pki/  (package pki)
// Run: go test -count=1 -run TestProbe_RevokedKeylessIssuerOnParentCRL ./internal/builtin/logical/pki/
package pki

import (
	"testing"

	"github.com/stretchr/testify/require"
)

// A root CA (certificate and key) is migrated into a mount together with the
// certificate of one of its intermediates (the intermediate's key lives
// elsewhere, so the issuer entry has no key). The intermediate was signed
// before the migration, so there is no certs/<serial> entry for it.
//
// issuer/<intermediate>/revoke reports success (revoked=true, revocation
// time set) - and it is the only way to revoke it: revoke by serial finds no
// stored certificate and revoke with the PEM is refused with "adding issuer
// to its own CRL is not allowed". Yet the serial never shows up on the
// root's CRL, because CRL building drops issuers without a key before it
// looks for revoked issuers. The same intermediate imported WITH its key is
// put on the root's CRL.
func TestProbe_RevokedKeylessIssuerOnParentCRL(t *testing.T) {
	t.Parallel()

	// Mount A: where root and intermediate were created.
	bA, sA := CreateBackendWithStorage(t)
	resp, err := CBWrite(bA, sA, "root/generate/exported", map[string]any{
		"common_name": "root",
		"key_type":    "ec",
	})
	requireSuccessNonNilResponse(t, resp, err)
	rootCert := resp.Data["certificate"].(string)
	rootKey := resp.Data["private_key"].(string)

	bI, sI := CreateBackendWithStorage(t)
	resp, err = CBWrite(bI, sI, "intermediate/generate/exported", map[string]any{
		"common_name": "int",
		"key_type":    "ec",
	})
	requireSuccessNonNilResponse(t, resp, err)
	csr := resp.Data["csr"].(string)
	intKey := resp.Data["private_key"].(string)

	resp, err = CBWrite(bA, sA, "root/sign-intermediate", map[string]any{
		"csr":         csr,
		"common_name": "int",
	})
	requireSuccessNonNilResponse(t, resp, err)
	intCert := resp.Data["certificate"].(string)
	intSerial := resp.Data["serial_number"].(string)

	for _, withKey := range []bool{true, false} {
		// Mount B: root (with key) and intermediate migrated in.
		b, s := CreateBackendWithStorage(t)
		resp, err = CBWrite(b, s, "issuers/import/bundle", map[string]any{
			"pem_bundle": rootCert + "\n" + rootKey,
		})
		requireSuccessNonNilResponse(t, resp, err)
		rootID := resp.Data["imported_issuers"].([]string)[0]

		bundle := intCert
		if withKey {
			bundle += "\n" + intKey
		}
		resp, err = CBWrite(b, s, "issuers/import/bundle", map[string]any{
			"pem_bundle": bundle,
		})
		requireSuccessNonNilResponse(t, resp, err)
		intID := resp.Data["imported_issuers"].([]string)[0]

		resp, err = CBWrite(b, s, "issuer/"+intID+"/revoke", map[string]any{})
		requireSuccessNonNilResponse(t, resp, err)
		require.Equal(t, true, resp.Data["revoked"], "issuer revocation must be reported")

		crl := getParsedCrlFromBackend(t, b, s, "issuer/"+rootID+"/crl/der")
		found := requireSerialNumberInCRL(nil, crl, intSerial)
		t.Logf("intermediate imported with key=%v: serial %s on the root's CRL: %v (CRL has %d entries)",
			withKey, intSerial, found, len(crl.RevokedCertificateEntries))
		if !found {
			t.Errorf("intermediate imported with key=%v: issuer/%s/revoke succeeded but serial %s is not on the CRL of its issuer",
				withKey, intID, intSerial)
		}
	}
}
