// Copy into: internal/builtin/logical/pki/  (package pki)
// Run: go test -count=1 -run TestProbe_SignVerbatimRoleNotAfterBound ./internal/builtin/logical/pki/
package pki

import (
	"crypto/ecdsa"
	"crypto/elliptic"
	"crypto/rand"
	"crypto/x509"
	"crypto/x509/pkix"
	"encoding/pem"
	"testing"
	"time"

	"github.com/stretchr/testify/require"
)

// sign-verbatim/<role> takes ttl and max_ttl from the role, so the role bounds
// the lifetime of what is signed through it. A role with
// not_after_bound=ttl-limited (or forbid) additionally closes the not_after
// request parameter, which otherwise is not capped by max_ttl. sign-verbatim
// drops the role's not_after_bound, so not_after walks past the role's max_ttl
// although the same request is refused on sign/<role>.
func TestProbe_SignVerbatimRoleNotAfterBound(t *testing.T) {
	t.Parallel()
	b, s := CreateBackendWithStorage(t)

	resp, err := CBWrite(b, s, "root/generate/internal", map[string]any{
		"common_name": "root",
		"key_type":    "ec",
		"ttl":         "87600h",
	})
	requireSuccessNonNilResponse(t, resp, err)

	key, err := ecdsa.GenerateKey(elliptic.P256(), rand.Reader)
	require.NoError(t, err)
	csrDER, err := x509.CreateCertificateRequest(rand.Reader, &x509.CertificateRequest{
		Subject:  pkix.Name{CommonName: "leaf.example.com"},
		DNSNames: []string{"leaf.example.com"},
	}, key)
	require.NoError(t, err)
	csrPEM := string(pem.EncodeToMemory(&pem.Block{Type: "CERTIFICATE REQUEST", Bytes: csrDER}))

	// The test mount caps the root at 48h; 24h is well inside the issuer's validity.
	notAfter := time.Now().Add(24 * time.Hour).UTC().Format(time.RFC3339)

	for _, bound := range []string{"ttl-limited", "forbid"} {
		role := "r-" + bound
		resp, err = CBWrite(b, s, "roles/"+role, map[string]any{
			"allow_any_name":  true,
			"key_type":        "any",
			"ttl":             "30m",
			"max_ttl":         "1h",
			"not_after_bound": bound,
		})
		require.NoError(t, err)
		require.False(t, resp != nil && resp.IsError(), "role write: %v", resp)

		// Reference: the role endpoint refuses the request.
		resp, err = CBWrite(b, s, "sign/"+role, map[string]any{
			"csr":         csrPEM,
			"common_name": "leaf.example.com",
			"not_after":   notAfter,
		})
		require.True(t, err != nil || (resp != nil && resp.IsError()),
			"sign/%s must refuse not_after beyond max_ttl (not_after_bound=%s)", role, bound)

		resp, err = CBWrite(b, s, "sign-verbatim/"+role, map[string]any{
			"csr":       csrPEM,
			"not_after": notAfter,
		})
		if err == nil && resp != nil && !resp.IsError() {
			cert := probeSVParse(t, resp.Data["certificate"].(string))
			t.Errorf("sign-verbatim/%s (max_ttl=1h, not_after_bound=%s) issued a certificate valid for %v (until %v)",
				role, bound, time.Until(cert.NotAfter).Round(time.Hour), cert.NotAfter)
		}
	}
}

func probeSVParse(t *testing.T, pemCert string) *x509.Certificate {
	t.Helper()
	block, _ := pem.Decode([]byte(pemCert))
	require.NotNil(t, block)
	cert, err := x509.ParseCertificate(block.Bytes)
	require.NoError(t, err)
	return cert
}
