// Copy into: internal/builtin/logical/pki/  (package pki; uses SendOcspRequest from path_ocsp_test.go)
// Run: go test -count=1 -run TestProbe_OcspRevokedIssuer ./internal/builtin/logical/pki/
package pki

import (
	"crypto"
	"crypto/x509"
	"encoding/pem"
	"testing"

	"github.com/stretchr/testify/require"
	"golang.org/x/crypto/ocsp"

	"github.com/openbao/openbao/sdk/v2/logical"
)

func probeOcspParse(t *testing.T, pemCert string) *x509.Certificate {
	t.Helper()
	block, _ := pem.Decode([]byte(pemCert))
	require.NotNil(t, block)
	cert, err := x509.ParseCertificate(block.Bytes)
	require.NoError(t, err)
	return cert
}

// A root and one of its intermediates are imported into a mount (the
// intermediate was signed elsewhere, so the mount has no certs/<serial> entry
// for it). issuer/<intermediate>/revoke reports success and the root's CRL
// lists the intermediate - but OCSP, asked about the intermediate's serial
// under the root, answers "good".
func TestProbe_OcspRevokedIssuer(t *testing.T) {
	t.Parallel()

	bA, sA := CreateBackendWithStorage(t)
	resp, err := CBWrite(bA, sA, "root/generate/exported", map[string]any{
		"common_name": "root",
		"key_type":    "ec",
	})
	requireSuccessNonNilResponse(t, resp, err)
	rootCert := resp.Data["certificate"].(string)
	rootKey := resp.Data["private_key"].(string)

	bI, sI := CreateBackendWithStorage(t)
	resp, err = CBWrite(bI, sI, "intermediate/generate/exported", map[string]any{
		"common_name": "int",
		"key_type":    "ec",
	})
	requireSuccessNonNilResponse(t, resp, err)
	csr := resp.Data["csr"].(string)
	intKey := resp.Data["private_key"].(string)

	resp, err = CBWrite(bA, sA, "root/sign-intermediate", map[string]any{
		"csr":         csr,
		"common_name": "int",
	})
	requireSuccessNonNilResponse(t, resp, err)
	intCert := resp.Data["certificate"].(string)
	intSerial := resp.Data["serial_number"].(string)

	b, s := CreateBackendWithStorage(t)
	resp, err = CBWrite(b, s, "issuers/import/bundle", map[string]any{
		"pem_bundle": rootCert + "\n" + rootKey,
	})
	requireSuccessNonNilResponse(t, resp, err)
	rootID := resp.Data["imported_issuers"].([]string)[0]
	resp, err = CBWrite(b, s, "issuers/import/bundle", map[string]any{
		"pem_bundle": intCert + "\n" + intKey,
	})
	requireSuccessNonNilResponse(t, resp, err)
	intID := resp.Data["imported_issuers"].([]string)[0]

	resp, err = CBWrite(b, s, "issuer/"+intID+"/revoke", map[string]any{})
	requireSuccessNonNilResponse(t, resp, err)
	require.Equal(t, true, resp.Data["revoked"])

	crl := getParsedCrlFromBackend(t, b, s, "issuer/"+rootID+"/crl/der")
	require.True(t, requireSerialNumberInCRL(nil, crl, intSerial), "the root's CRL lists the revoked intermediate")

	require.Len(t, crl.RevokedCertificateEntries, 1, "the serial must be listed exactly once")

	// certificate status API
	resp, err = CBRead(b, s, "cert/"+intSerial)
	require.NoError(t, err)
	if resp == nil || resp.Data["revocation_time"] == nil || resp.Data["revocation_time"].(int64) == 0 {
		t.Errorf("cert/%s does not report the revocation: %#v", intSerial, resp)
	}

	root := probeOcspParse(t, rootCert)
	inter := probeOcspParse(t, intCert)
	resp, err = SendOcspRequest(t, b, s, "get", inter, root, crypto.SHA1)
	requireSuccessNonNilResponse(t, resp, err)
	ocspResp, err := ocsp.ParseResponse(resp.Data[logical.HTTPRawBody].([]byte), root)
	require.NoError(t, err)
	names := map[int]string{ocsp.Good: "good", ocsp.Revoked: "revoked", ocsp.Unknown: "unknown"}
	t.Logf("OCSP status for the revoked intermediate %s: %s", intSerial, names[ocspResp.Status])
	require.Equal(t, ocsp.Revoked, ocspResp.Status,
		"issuer revocation was reported successful and the CRL lists the serial, but OCSP answers %q", names[ocspResp.Status])
}
