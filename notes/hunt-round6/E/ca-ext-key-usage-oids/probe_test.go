// Copy into: internal/builtin/logical/pki/  (package pki)
// Run: go test -count=1 -run TestProbe_CAExtKeyUsageOIDs ./internal/builtin/logical/pki/
package pki

import (
	"crypto/x509"
	"encoding/asn1"
	"encoding/pem"
	"testing"

	"github.com/stretchr/testify/require"
)

func probeParseCert(t *testing.T, pemCert string) *x509.Certificate {
	t.Helper()
	block, _ := pem.Decode([]byte(pemCert))
	require.NotNil(t, block)
	cert, err := x509.ParseCertificate(block.Bytes)
	require.NoError(t, err)
	return cert
}

// An intermediate (or root) requested with ext_key_usage=ServerAuth and an
// additional custom EKU OID must carry both usages. The CA paths instead
// parse the OIDs as EKU *names* and overwrite ExtKeyUsage with the (empty)
// result: the named EKU is dropped, the OID is never added, and the CA
// certificate comes out without any EKU restriction at all.
func TestProbe_CAExtKeyUsageOIDs(t *testing.T) {
	t.Parallel()
	b, s := CreateBackendWithStorage(t)

	customOID := asn1.ObjectIdentifier{1, 3, 6, 1, 4, 1, 311, 20, 2, 2}

	// root/generate
	resp, err := CBWrite(b, s, "root/generate/internal", map[string]any{
		"common_name":        "root",
		"key_type":           "ec",
		"ext_key_usage":      "ServerAuth",
		"ext_key_usage_oids": customOID.String(),
	})
	requireSuccessNonNilResponse(t, resp, err)
	root := probeParseCert(t, resp.Data["certificate"].(string))
	t.Logf("root: ExtKeyUsage=%v UnknownExtKeyUsage=%v", root.ExtKeyUsage, root.UnknownExtKeyUsage)

	// intermediate CSR from a second mount, signed by the root
	b2, s2 := CreateBackendWithStorage(t)
	resp, err = CBWrite(b2, s2, "intermediate/generate/internal", map[string]any{
		"common_name": "int",
		"key_type":    "ec",
	})
	requireSuccessNonNilResponse(t, resp, err)
	csr := resp.Data["csr"].(string)

	resp, err = CBWrite(b, s, "root/sign-intermediate", map[string]any{
		"csr":                csr,
		"common_name":        "int",
		"ext_key_usage":      "ServerAuth",
		"ext_key_usage_oids": customOID.String(),
	})
	requireSuccessNonNilResponse(t, resp, err)
	inter := probeParseCert(t, resp.Data["certificate"].(string))
	t.Logf("intermediate: ExtKeyUsage=%v UnknownExtKeyUsage=%v", inter.ExtKeyUsage, inter.UnknownExtKeyUsage)

	for name, cert := range map[string]*x509.Certificate{"root": root, "intermediate": inter} {
		require.Containsf(t, cert.ExtKeyUsage, x509.ExtKeyUsageServerAuth,
			"%s: requested ext_key_usage=ServerAuth was dropped; the CA certificate is not EKU-restricted", name)
		found := false
		for _, oid := range cert.UnknownExtKeyUsage {
			if oid.Equal(customOID) {
				found = true
			}
		}
		require.Truef(t, found, "%s: requested ext_key_usage_oids %v missing from certificate", name, customOID)
	}
}
