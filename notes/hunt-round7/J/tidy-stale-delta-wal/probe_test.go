// Copy into: internal/builtin/logical/pki/  (package pki)
//
// Run: go test ./internal/builtin/logical/pki/ -run TestProbeTidyLeavesDeltaWALEntry -count=1

package pki

import (
	"testing"
	"time"

	"github.com/stretchr/testify/require"
)

// With auto_rebuild and delta CRLs enabled a revocation writes revoked/<serial>
// and delta-wal/<serial>. Tidy (tidy_revoked_certs) removes revoked/<serial>
// once the certificate has expired but leaves delta-wal/<serial> behind. Every
// delta CRL build until the next complete CRL build then fails on the stale
// WAL entry, so later revocations never make it onto a delta CRL.
func TestProbeTidyLeavesDeltaWALEntry(t *testing.T) {
	t.Parallel()

	b, s := CreateBackendWithStorage(t)

	resp, err := CBWrite(b, s, "root/generate/internal", map[string]any{
		"common_name": "root example.com",
		"key_type":    "ec",
		"ttl":         "87600h",
	})
	requireSuccessNonNilResponse(t, resp, err, "root generation")

	_, err = CBWrite(b, s, "config/crl", map[string]any{
		"auto_rebuild": true,
		"enable_delta": true,
	})
	require.NoError(t, err)

	_, err = CBWrite(b, s, "roles/any", map[string]any{
		"allow_any_name": true,
		"key_type":       "ec",
		"ttl":            "1h",
	})
	require.NoError(t, err)

	// Short-lived certificate X and long-lived certificate Y.
	resp, err = CBWrite(b, s, "issue/any", map[string]any{"common_name": "x.example.com", "ttl": "4s"})
	requireSuccessNonNilResponse(t, resp, err, "issue X")
	serialX := resp.Data["serial_number"].(string)

	resp, err = CBWrite(b, s, "issue/any", map[string]any{"common_name": "y.example.com", "ttl": "1h"})
	requireSuccessNonNilResponse(t, resp, err, "issue Y")
	serialY := resp.Data["serial_number"].(string)

	// Revoke X while it is still valid.
	resp, err = CBWrite(b, s, "revoke", map[string]any{"serial_number": serialX})
	requireSuccessNonNilResponse(t, resp, err, "revoke X")
	require.Equal(t, "revoked", resp.Data["state"])

	// Let X expire, then tidy it away.
	time.Sleep(7 * time.Second)
	_, err = CBWrite(b, s, "tidy", map[string]any{
		"tidy_revoked_certs": true,
		"safety_buffer":      "1s",
	})
	require.NoError(t, err)

	deadline := time.Now().Add(30 * time.Second)
	for {
		resp, err = CBRead(b, s, "tidy-status")
		require.NoError(t, err)
		if state, _ := resp.Data["state"].(string); state == "Finished" {
			break
		}
		if time.Now().After(deadline) {
			t.Fatalf("tidy did not finish: %v", resp.Data)
		}
		time.Sleep(200 * time.Millisecond)
	}
	require.Equal(t, uint(1), resp.Data["revoked_cert_deleted_count"], "tidy should have removed the revocation entry of X")

	// Revoke Y: reported successful.
	resp, err = CBWrite(b, s, "revoke", map[string]any{"serial_number": serialY})
	requireSuccessNonNilResponse(t, resp, err, "revoke Y")
	require.Equal(t, "revoked", resp.Data["state"])

	// The delta CRL must be buildable and list Y.
	resp, err = CBRead(b, s, "crl/rotate-delta")
	require.NoError(t, err, "delta CRL rebuild failed after tidy removed a revoked certificate")
	require.NotNil(t, resp)

	delta := getParsedCrlFromBackend(t, b, s, "crl/delta")
	require.True(t, requireSerialNumberInCRL(nil, delta, serialY), "serial Y missing from the delta CRL")
}
