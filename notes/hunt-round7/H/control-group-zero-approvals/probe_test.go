// Copy into internal/vault/ (package vault) and run:
//
//	go test ./internal/vault/ -run TestProbe_ControlGroupWithoutApprovals -count=1
//
// A control_group factor whose identity block omits `approvals` (or sets it to
// 0 or a negative number) defers the request as usual, but the wrapping token
// validates at once: the requester unwraps it and the deferred request is
// executed although nobody has authorized it.
//
// The probe accepts either of the two correct behaviours: the policy is
// refused when it is written, or the unwrap is refused while there is no
// authorization.
package vault

import (
	"fmt"
	"testing"

	"github.com/hashicorp/go-uuid"
	"github.com/openbao/openbao/sdk/v2/logical"
	"github.com/openbao/openbao/v2/internal/helper/namespace"
	"github.com/openbao/openbao/v2/internal/vault/routing"
	"github.com/stretchr/testify/require"
)

func TestProbe_ControlGroupWithoutApprovals(t *testing.T) {
	for name, approvals := range map[string]string{
		"omitted":  "",
		"zero":     "approvals = 0",
		"negative": "approvals = -1",
	} {
		t.Run(name, func(t *testing.T) {
			core, _, root := TestCoreUnsealed(t)
			ctx := namespace.RootContext(t.Context())

			core.logicalBackends["kv"] = PassthroughBackendFactory
			meUUID, _ := uuid.GenerateUUID()
			require.NoError(t, core.mount(ctx, &routing.MountEntry{
				Table: routing.MountTableType,
				UUID:  meUUID,
				Path:  "cg_test",
				Type:  "kv",
			}))

			_, err := core.HandleRequest(ctx, &logical.Request{
				Path:        "cg_test/foo",
				ClientToken: root,
				Operation:   logical.CreateOperation,
				Data:        map[string]any{"zip": "zap"},
			})
			require.NoError(t, err)

			cgPolicy := fmt.Sprintf(`path "cg_test/foo" {
				capabilities = ["create", "update", "read"]
				control_group = {
					ttl = "15s"
					factor "admin-approval" {
						identity = {
							group_names = ["admin"]
							%s
						}
					}
				}
			}`, approvals)
			resp, err := core.HandleRequest(ctx, &logical.Request{
				Path:        "sys/policies/acl/cg_test",
				Operation:   logical.UpdateOperation,
				ClientToken: root,
				Data:        map[string]any{"policy": cgPolicy},
			})
			if err != nil || (resp != nil && resp.IsError()) {
				t.Logf("policy refused (fine): resp=%v err=%v", resp, err)
				return
			}

			resp, err = core.HandleRequest(ctx, &logical.Request{
				Path:        "auth/token/create",
				ClientToken: root,
				Operation:   logical.CreateOperation,
				Data: map[string]any{
					"policies": []string{"cg_test"},
					"ttl":      "5m",
				},
			})
			require.NoError(t, err)
			requester := resp.Auth.ClientToken

			// The read is governed by the control group: it is deferred and a
			// wrapping token is handed out instead of the secret.
			resp, err = core.HandleRequest(ctx, &logical.Request{
				Path:        "cg_test/foo",
				ClientToken: requester,
				Operation:   logical.ReadOperation,
			})
			require.NoError(t, err)
			require.NotNil(t, resp)
			require.NotNil(t, resp.WrapInfo, "request was not deferred: %#v", resp)
			require.Nil(t, resp.Data)

			// Nobody has authorized anything. Unwrapping must fail.
			resp, err = core.HandleRequest(ctx, &logical.Request{
				Path:        "sys/wrapping/unwrap",
				ClientToken: resp.WrapInfo.Token,
				Operation:   logical.UpdateOperation,
			})
			if err == nil {
				t.Fatalf("control-group protected request executed without a single authorization: data=%v", resp.Data)
			}
		})
	}
}
