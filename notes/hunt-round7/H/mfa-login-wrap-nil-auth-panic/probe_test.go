// Copy into internal/vault/ (package vault) and run:
//
//	go test ./internal/vault/ -run TestProbe_MFALoginWrap -count=1
//
// A login that is subject to a login-MFA enforcement (two-phase: no X-Vault-MFA
// header) and asks for response wrapping (X-Vault-Wrap-TTL) crashes the request
// handler with a nil pointer dereference instead of returning the wrapped MFA
// requirement.
package vault

import (
	"runtime/debug"
	"testing"
	"time"

	credUserpass "github.com/openbao/openbao/v2/internal/builtin/credential/userpass"

	"github.com/openbao/openbao/sdk/v2/logical"
	"github.com/openbao/openbao/v2/internal/helper/namespace"
	"github.com/stretchr/testify/require"
)

func TestProbe_MFALoginWrap(t *testing.T) {
	core, _, root := TestCoreUnsealed(t)
	ctx := namespace.RootContext(t.Context())
	require.NoError(t, core.loadMounts(ctx, false))
	core.credentialBackends["userpass"] = credUserpass.Factory

	do := func(req *logical.Request) *logical.Response {
		t.Helper()
		defer func() {
			if r := recover(); r != nil {
				t.Fatalf("request %s %s panicked: %v\n%s", req.Operation, req.Path, r, debug.Stack())
			}
		}()
		if req.Connection == nil {
			req.Connection = &logical.Connection{}
		}
		resp, err := core.HandleRequest(ctx, req)
		require.NoError(t, err)
		if resp != nil && resp.IsError() {
			t.Fatalf("error response: %v", resp.Error())
		}
		return resp
	}

	do(&logical.Request{Path: "sys/auth/userpass", ClientToken: root, Operation: logical.UpdateOperation, Data: map[string]any{"type": "userpass"}})
	do(&logical.Request{Path: "auth/userpass/users/test", ClientToken: root, Operation: logical.UpdateOperation, Data: map[string]any{"password": "foo", "policies": "default"}})

	resp := do(&logical.Request{Path: "sys/auth", ClientToken: root, Operation: logical.ReadOperation})
	accessor := resp.Data["userpass/"].(map[string]any)["accessor"].(string)

	resp = do(&logical.Request{Path: "identity/mfa/method/totp", ClientToken: root, Operation: logical.UpdateOperation, Data: map[string]any{"method_name": "t", "issuer": "x"}})
	methodID := resp.Data["method_id"].(string)

	do(&logical.Request{Path: "identity/mfa/login-enforcement/e", ClientToken: root, Operation: logical.UpdateOperation, Data: map[string]any{
		"mfa_method_ids":        []string{methodID},
		"auth_method_accessors": []string{accessor},
	}})

	// plain two-phase login
	resp = do(&logical.Request{Path: "auth/userpass/login/test", Operation: logical.UpdateOperation, Data: map[string]any{"password": "foo"}})
	require.NotNil(t, resp.Auth)
	require.NotNil(t, resp.Auth.MFARequirement)
	require.Empty(t, resp.Auth.ClientToken)

	// same with a wrap TTL
	resp = do(&logical.Request{Path: "auth/userpass/login/test", Operation: logical.UpdateOperation, Data: map[string]any{"password": "foo"},
		WrapInfo: &logical.RequestWrapInfo{TTL: 15 * time.Second}})
	require.NotNil(t, resp)
	require.NotNil(t, resp.WrapInfo, "response was not wrapped: %#v", resp)
	require.NotEmpty(t, resp.WrapInfo.Token)
	require.Nil(t, resp.Auth, "the MFA requirement must only be reachable through the wrapping token")

	// Unwrapping yields the MFA requirement, not a token.
	resp = do(&logical.Request{Path: "sys/wrapping/unwrap", ClientToken: resp.WrapInfo.Token, Operation: logical.UpdateOperation})
	require.NotNil(t, resp)
	t.Logf("unwrapped: %v", resp.Data)
	require.Contains(t, string(resp.Data[logical.HTTPRawBody].([]byte)), "mfa_request_id")
	require.NotContains(t, string(resp.Data[logical.HTTPRawBody].([]byte)), `"client_token":"s.`)
}
