// Copy into internal/vault/ (package vault) and run:
//
//	go test ./internal/vault/ -run TestProbe_ControlGroupWithoutTTL -count=1
//
// A control_group block without `ttl` makes every request it governs "succeed"
// with an empty response: the operation is neither executed nor deferred (no
// wrapping token is handed out), so a write is acknowledged and dropped, and
// nobody can ever authorize it.
package vault

import (
	"testing"

	"github.com/hashicorp/go-uuid"
	"github.com/openbao/openbao/sdk/v2/logical"
	"github.com/openbao/openbao/v2/internal/helper/namespace"
	"github.com/openbao/openbao/v2/internal/vault/routing"
	"github.com/stretchr/testify/require"
)

func TestProbe_ControlGroupWithoutTTL(t *testing.T) {
	core, _, root := TestCoreUnsealed(t)
	ctx := namespace.RootContext(t.Context())

	core.logicalBackends["kv"] = PassthroughBackendFactory
	meUUID, _ := uuid.GenerateUUID()
	require.NoError(t, core.mount(ctx, &routing.MountEntry{
		Table: routing.MountTableType,
		UUID:  meUUID,
		Path:  "cg_test",
		Type:  "kv",
	}))

	_, err := core.HandleRequest(ctx, &logical.Request{
		Path:        "cg_test/foo",
		ClientToken: root,
		Operation:   logical.CreateOperation,
		Data:        map[string]any{"zip": "zap"},
	})
	require.NoError(t, err)

	cgPolicy := `path "cg_test/foo" {
		capabilities = ["create", "update", "read"]
		control_group = {
			factor "admin-approval" {
				identity = {
					group_names = ["admin"]
					approvals = 1
				}
			}
		}
	}`
	resp, err := core.HandleRequest(ctx, &logical.Request{
		Path:        "sys/policies/acl/cg_test",
		Operation:   logical.UpdateOperation,
		ClientToken: root,
		Data:        map[string]any{"policy": cgPolicy},
	})
	if err != nil || (resp != nil && resp.IsError()) {
		t.Logf("policy refused (fine): resp=%v err=%v", resp, err)
		return
	}

	resp, err = core.HandleRequest(ctx, &logical.Request{
		Path:        "auth/token/create",
		ClientToken: root,
		Operation:   logical.CreateOperation,
		Data: map[string]any{
			"policies": []string{"cg_test"},
			"ttl":      "5m",
		},
	})
	require.NoError(t, err)
	requester := resp.Auth.ClientToken

	// A write governed by the control group.
	resp, err = core.HandleRequest(ctx, &logical.Request{
		Path:        "cg_test/foo",
		ClientToken: requester,
		Operation:   logical.UpdateOperation,
		Data:        map[string]any{"zip": "newzap"},
	})

	// What is stored now?
	cur, rerr := core.HandleRequest(ctx, &logical.Request{
		Path:        "cg_test/foo",
		ClientToken: root,
		Operation:   logical.ReadOperation,
	})
	require.NoError(t, rerr)
	require.Equal(t, "zap", cur.Data["zip"], "the write must not be executed before it is authorized")

	// The write was not executed. Then the requester must either get an error
	// or the wrapping token of the deferred request - not a bare success.
	if err == nil && (resp == nil || !resp.IsError()) {
		if resp == nil || resp.WrapInfo == nil || resp.WrapInfo.Token == "" {
			t.Fatalf("write was dropped but acknowledged as a success without a wrapping token: resp=%#v", resp)
		}
		t.Logf("deferred, wrap ttl %v", resp.WrapInfo.TTL)
	}
}
