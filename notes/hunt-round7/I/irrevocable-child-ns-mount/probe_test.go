// Copy into internal/vault/ (package vault) and run:
//   go test ./internal/vault/ -run 'TestProbe_IrrevocableLeaseMountOfChildNamespace' -count=1
package vault

import (
	"testing"

	"github.com/openbao/openbao/sdk/v2/logical"
	"github.com/openbao/openbao/v2/internal/helper/namespace"
	"github.com/stretchr/testify/require"
)

// An irrevocable lease that lives in a child namespace must be reported by
// sys/leases/count and sys/leases (type=irrevocable, include_child_namespaces=true)
// under the mount it belongs to, i.e. the mount of the child namespace.
func TestProbe_IrrevocableLeaseMountOfChildNamespace(t *testing.T) {
	c, _, root := TestCoreUnsealed(t)
	rootCtx := namespace.RootContext(t.Context())

	ns1 := &namespace.Namespace{Path: "ns1/"}
	TestCoreCreateNamespaces(t, c, ns1)
	ns1Ctx := namespace.ContextWithNamespace(rootCtx, ns1)

	// The root namespace has a mount "secret/" (added by TestCoreUnsealed). Give the
	// child namespace a mount of the same name and one that exists only there.
	for _, p := range []string{"secret", "onlychild"} {
		resp, err := c.HandleRequest(ns1Ctx, &logical.Request{
			Operation:   logical.UpdateOperation,
			ClientToken: root,
			Path:        "sys/mounts/" + p,
			Data:        map[string]any{"type": "kv"},
		})
		require.NoError(t, err)
		require.False(t, resp != nil && resp.IsError(), "%v", resp)
	}

	rootSecret := c.router.MatchingMountEntry(rootCtx, "secret/x").Accessor
	childSecret := c.router.MatchingMountEntry(ns1Ctx, "secret/x").Accessor
	childOnly := c.router.MatchingMountEntry(ns1Ctx, "onlychild/x").Accessor
	require.NotEqual(t, rootSecret, childSecret)

	l1, err := c.AddIrrevocableLease(ns1Ctx, "secret/creds/")
	require.NoError(t, err)
	l2, err := c.AddIrrevocableLease(ns1Ctx, "onlychild/creds/")
	require.NoError(t, err)

	// What the child namespace itself reports is the reference.
	resp, err := c.HandleRequest(ns1Ctx, &logical.Request{
		Operation:   logical.ReadOperation,
		ClientToken: root,
		Path:        "sys/leases/count",
		Data:        map[string]any{"type": "irrevocable"},
	})
	require.NoError(t, err)
	require.Equal(t, map[string]int{childSecret: 1, childOnly: 1}, resp.Data["counts"], "asked in ns1")

	// Asked from the parent with include_child_namespaces the same leases must be
	// attributed to the same mounts.
	resp, err = c.HandleRequest(rootCtx, &logical.Request{
		Operation:   logical.ReadOperation,
		ClientToken: root,
		Path:        "sys/leases/count",
		Data:        map[string]any{"type": "irrevocable", "include_child_namespaces": true},
	})
	require.NoError(t, err)
	require.Equal(t, 2, resp.Data["lease_count"])
	if got := resp.Data["counts"].(map[string]int); got[childSecret] != 1 || got[childOnly] != 1 {
		t.Errorf("sys/leases/count from the parent namespace: want {%s:1 %s:1}, got %v (accessor of the ROOT namespace's secret/ mount is %s)",
			childSecret, childOnly, got, rootSecret)
	}

	resp, err = c.HandleRequest(rootCtx, &logical.Request{
		Operation:   logical.ReadOperation,
		ClientToken: root,
		Path:        "sys/leases",
		Data:        map[string]any{"type": "irrevocable", "include_child_namespaces": true},
	})
	require.NoError(t, err)
	want := map[string]string{l1.id: childSecret, l2.id: childOnly}
	for _, lr := range resp.Data["leases"].([]*leaseResponse) {
		if lr.MountID != want[lr.LeaseID] {
			t.Errorf("sys/leases from the parent namespace: lease %s: want mount_id %s, got %s", lr.LeaseID, want[lr.LeaseID], lr.MountID)
		}
	}
}
