import re
from lib.runner import PropCheck, Stream

HARNESS = {"name": "c07wb", "module": "root", "pkg": "./internal/vault",
           "files": {"internal/vault/zz_verif_c07_test.go": "wb/vault/zz_verif_c07_test.go",
                     "internal/vault/zz_verif_common_test.go": "wb/vault/zz_verif_common_test.go",
                     "internal/zzverif/vh/vh.go": "vh/vh.go"}}

NON_ASSIGNABLE = {"response-wrapping"}


def plist(s):
    n, rest = s.split(":", 1)
    n = int(n)
    if n == 0:
        return []
    return rest.split(",")


def norm(p):
    return p.strip().lower()


def kv(impl):
    out = {}
    for part in impl.split(";")[1:]:
        k, v = part.split("=", 1)
        out[k] = v
    return out


def glob_match(pattern, subj):
    """independent reading of go-glob: `*` matches any run of characters, everything else is literal"""
    if pattern == "":
        return subj == ""
    rx = ".*".join(re.escape(x) for x in pattern.split("*"))
    return re.fullmatch(rx, subj, re.S) is not None


def viol(what, sig):
    return {"what": what, "signature": sig}


# signatures of the findings reproduced on the unchanged tree (see known_findings.json); a violation with another
# signature on the same op is reported in preference, so that a known finding never masks a new failure
FINDING_SIGS = {"root-ttl-from-explicit-max-over-mount-max", "root-token-created-from-parent-namespace",
                "ns-token-mount-max-ignored"}


def choose(vs):
    if not vs:
        return None
    for v in vs:
        if v["signature"] not in FINDING_SIGS:
            return v
    return vs[0]


class CreateStream(Stream):
    name = "tokencreate"
    driver = "tokencreate"
    harness = HARNESS
    testname = "TestVerifC07Create"
    rule = ("one real Core per batch with a child namespace; token roles written in both namespaces with random allowed/"
            "disallowed literal+glob lists, orphan, period, explicit max, num_uses, token type, path suffix, entity aliases and "
            "read back (op `role`); creations through auth/token/create, create-orphan, create/<role> in the root and the child "
            "namespace by parents drawn from policies {default,a,b,s,t,x,na,nsu,root} x ttl x num_uses x service/batch x home "
            "namespace, whose capabilities on the path are read from the core, with random policies (subsets of the parent's / of "
            "the role's plus foreign, mixed case, blanks, empty), no_parent, no_default_policy, period, explicit_max_ttl, ttl "
            "(absent/unparsable/0/negative/around the mount max), num_uses, id (custom/reserved prefix/dot/duplicate), type, "
            "entity_alias, renewable, under 5 mount TTL tunings, plus 24 directed root-parent cases per core; non-trivial = a "
            "token was created; distinct = distinct op line")

    def nontrivial(self, op, impl):
        return impl.startswith("ok")

    def predicate(self, op, impl):
        d = super().predicate(op, impl)
        if d:
            return d
        f = op.split("\t")
        if f[0] == "table":
            if impl != "ok:" + "%d:%s" % (len(NON_ASSIGNABLE), ",".join(sorted(NON_ASSIGNABLE))):
                return viol("policy.NonAssignablePolicies changed: %s" % impl, "non-assignable-table-changed")
            return None
        if f[0] != "create":
            return None
        if not impl.startswith("ok;"):
            if impl == "panic" or impl.startswith(("err:internal", "err:lookup-failed", "err:no-auth", "err:wrong-namespace", "err:other")):
                return viol("token creation ended in %s" % impl, "create-internal")
            return None
        return choose(self.violations(f, impl))

    def violations(self, f, impl):
        vs = []

        def bad(what, sig):
            vs.append(viol(what, sig))

        (allowed, sudo, ns_child, cross_ns, sys_def, sys_max, mount_max, ppol, pttl, puses, pbatch, ep, role_name) = f[1:14]
        role = f[14:27]
        (pols, no_parent, no_default, renewable, period, emax, ttl, uses, idk, typ, alias) = f[27:38]
        r = kv(impl)
        parent = plist(ppol)
        sudo = sudo == "1"
        sys_max = int(sys_max)
        # every view of the created token's policies must satisfy the property
        if r["lpol"] == "?":
            # non-expiring token in a child namespace: only the response could be recorded (see the harness)
            for k, src in (("lpol", "tpol"), ("lorphan", "orphan"), ("ltype", "type"), ("lttl", "ttl"), ("lperiod", "period"),
                           ("lemax", "emax"), ("luses", "uses")):
                r[k] = r[src]
        views = {k: plist(r[k]) for k in ("pol", "tpol", "lpol")}
        if allowed != "1":
            bad("token created by a caller without update capability on the path", "create-without-capability")
        if pbatch == "1" or int(puses) > 0:
            bad("a batch or use-limited parent created a token", "limited-or-batch-parent-created")
        orphan = r["orphan"] == "1" or r["lorphan"] == "1"
        ttl_v, lttl = int(r["ttl"]), int(r["lttl"])
        period_v = max(int(r["period"]), int(r["lperiod"]))
        for vname, got in views.items():
            if "root" in got and "root" not in parent:
                bad("root token created by a non-root parent (%s)" % vname, "root-from-non-root")
            for p in got:
                if p in NON_ASSIGNABLE:
                    bad("non-assignable policy %s on a created token" % p, "non-assignable-created")
            if not sudo and ep in ("create", "orphan") and cross_ns == "0":
                extra = [p for p in got if p not in parent]
                if extra:
                    bad("non-sudo caller obtained policies %s its parent lacks (%s)" % (extra, vname), "policy-escalation")
        if cross_ns == "1" and not sudo:
            bad("token created in a child namespace by a parent-namespace token without sudo", "cross-namespace-without-sudo")
        if not sudo and r["custom"] == "1":
            bad("caller-chosen id without sudo", "custom-id-without-sudo")
        if ns_child == "1" and r["custom"] == "1":
            bad("caller-chosen id outside the root namespace", "custom-id-in-child-namespace")
        if not sudo and ep in ("create", "orphan"):
            if ep == "create" and orphan:
                bad("orphan token from plain create without sudo", "orphan-without-sudo")
            if period_v != 0:
                bad("periodic token without sudo", "periodic-without-sudo")
        if ep == "create" and no_parent == "0" and orphan:
            bad("create endpoint without no_parent produced an orphan", "orphan-unrequested")
        if ep == "orphan" and not orphan:
            bad("create-orphan produced a non-orphan", "orphan-endpoint-not-orphan")
        if ep == "role":
            ral, rdis, rag, rdg = (plist(x) for x in role[0:4])
            r_orphan, r_period, r_emax, r_type = role[4] == "1", int(role[7]), int(role[8]), role[10]
            got = views["lpol"]
            if ral or rag:
                for p in got:
                    if p == "default":
                        continue
                    if norm(p) not in [norm(x) for x in ral] and not any(glob_match(norm(g), p) for g in rag):
                        bad("policy %s outside the role's allow-list" % p, "role-allow-list-exceeded")
            for p in got:
                if p in [norm(x) for x in rdis] or any(glob_match(norm(g), p) for g in rdg):
                    bad("policy %s is on the role's disallow-list" % p, "role-disallow-list-ignored")
            if not ral and not rag and not rdis and not rdg and not sudo and cross_ns == "0":
                extra = [p for p in got if p not in parent]
                if extra:
                    bad("role without lists let a non-sudo caller obtain %s" % extra, "policy-escalation")
            if orphan != r_orphan:
                bad("orphan state differs from the role's", "role-orphan-mismatch")
            if r_type in ("service", "batch") and r["ltype"] != r_type:
                bad("token type differs from the role's", "role-type-mismatch")
            if not sudo and r["ltype"] != "batch":
                if period_v != 0 and r_period <= 0:
                    bad("periodic token through a non-periodic role without sudo", "periodic-without-sudo")
                if r_period > 0 and int(r["period"]) > r_period:
                    bad("period exceeds the role's", "role-period-exceeded")
            if r["ltype"] != "batch" and r_emax > 0 and not (0 < int(r["emax"]) <= r_emax):
                bad("explicit max TTL exceeds the role's", "role-emax-exceeded")
        if cross_ns == "1" and any("root" in v for v in views.values()):
            # F33: the guard "root tokens may not be created from a parent namespace" inspects only the raw requested list
            req_root = [p for p in plist(pols) if norm(p) == "root"]
            how = ("requested as %s" % req_root) if req_root else "inherited from the parent through a role / empty request"
            bad("root token created in a child namespace by a parent-namespace token (%s)" % how,
                "root-token-created-from-parent-namespace")
        # lifetime
        if ttl_v != lttl:
            bad("response TTL differs from the stored TTL", "ttl-response-vs-stored")
        if ttl_v == 0:
            if not ("root" in views["lpol"] and "root" in parent and int(pttl) == 0):
                bad("non-expiring token that is not a root token made by a non-expiring root token", "non-expiring-non-root")
        else:
            e = int(r["emax"])
            if e > 0 and ttl_v > e:
                bad("TTL exceeds the explicit max TTL", "ttl-over-explicit-max")
            if ttl_v > sys_max:
                # F32: a token holding root, created with neither ttl nor period, gets its explicit max as TTL uncapped
                if "root" in views["lpol"] and ttl in ("-", "0") and period_v <= 0 and e > 0 and ttl_v == e:
                    bad("root token created without ttl/period gets TTL = explicit_max_ttl (%d s) above the mount max "
                        "(%d s); parent TTL %s s" % (ttl_v, sys_max, pttl), "root-ttl-from-explicit-max-over-mount-max")
                else:
                    bad("TTL exceeds the mount max TTL", "ttl-over-mount-max")
            elif ttl_v > int(mount_max):
                # F34: the shared token store bounds by the root namespace's token mount, whatever the namespace's own says
                bad("TTL (%d s) exceeds the max lease TTL tuned on the token mount of the request's namespace (%s s); "
                    "the shared token store bounds by the root namespace's token mount (%d s)" % (ttl_v, mount_max, sys_max),
                    "ns-token-mount-max-ignored")
        return vs


class LoginStream(Stream):
    name = "login"
    driver = "login"
    harness = HARNESS
    testname = "TestVerifC07Login"
    rule = ("logins against a fake credential backend mounted four times (mount token type default-service/default-batch/"
            "service/batch, different default/max lease TTLs) whose handler returns a generated logical.Auth: Policies incl. root, "
            "default, unknown, mixed-case and blank names, a decoy TokenPolicies, NoDefaultPolicy, TTL/MaxTTL/Period/"
            "ExplicitMaxTTL around the mount max, NumUses, all five TokenType values, and an alias bound to entities carrying "
            "identity policies (incl. response-wrapping); non-trivial = a token was created; distinct = distinct op line")

    def nontrivial(self, op, impl):
        return impl.startswith("ok")

    def predicate(self, op, impl):
        d = super().predicate(op, impl)
        if d:
            return d
        f = op.split("\t")
        if f[0] != "login":
            return None
        if not impl.startswith("ok;"):
            if impl == "panic" or impl.startswith("err:lookup-failed") or impl.startswith("err:no-auth"):
                return viol("login ended in %s" % impl, "login-internal")
            return None
        (mt, sys_def, sys_max, pols, ipols, no_default, ttl, max_ttl, period, emax, uses, renewable, tt) = f[1:14]
        r = kv(impl)
        for k in ("tpol", "pol", "ipol"):
            got = plist(r[k])
            if "root" in got:
                return viol("login token carries root (%s)" % k, "login-root")
            for p in got:
                if p in NON_ASSIGNABLE:
                    return viol("login token carries non-assignable policy %s (%s)" % (p, k), "login-non-assignable")
        offered = set(norm(p) for p in plist(pols)) | set(norm(p) for p in plist(ipols)) | {"default"}
        for p in plist(r["pol"]):
            if p not in offered:
                return viol("login token carries %s which neither the backend nor the entity supplied" % p, "login-foreign-policy")
        t = int(r["ttl"])
        if t <= 0:
            return viol("login token without expiry", "login-non-expiring")
        if t != int(r["attl"]):
            return viol("response TTL differs from the stored TTL", "ttl-response-vs-stored")
        for bound, name in ((int(sys_max), "mount max"), (int(max_ttl), "backend max"), (int(emax), "explicit max")):
            if bound > 0 and t > bound:
                return viol("login TTL exceeds the %s TTL" % name, "login-ttl-over-" + name.replace(" ", "-"))
        return None


class C07(PropCheck):
    pid = "C07"
    streams = [CreateStream(), LoginStream()]
    level_text = ("Lean theorems over a branch-by-branch model of handleCreateCommon / resolveTokenPolicies / "
                  "parseAndMergeTTLPeriod / tokenStoreRoleCreateUpdate / LoginCreateToken+RegisterAuth (SanitizePolicies, "
                  "StrListSubset, go-glob modelled exactly): create_no_escalation, limited_or_batch_cannot_create, role_bounds, "
                  "login_never_root, lifetime_bounded (via C05.calcTTL_bound), for all parents, capabilities, parameters, roles "
                  "and login responses; the model is tied to the Go code on every run by two differential streams through "
                  "Core.HandleRequest on a real core, and the property's predicate is evaluated directly on every created token")
    level_note = ("trusted: Lean kernel; the hand-written model and its differential tie; ACL evaluation (allowed/sudo are read "
                  "from the core's own capabilities endpoint, C03's subject); ASCII policy names; duration parsing outside the model")
    technique = "Lean 4 theorems (case analysis over the guard chain, list-membership lemmas, calcTTL_bound) + differential correspondence"
    assumptions = ["policy names are ASCII (Go lower-cases/trims with Unicode tables, the model with ASCII ones)",
                   "the token's creation second equals the second CalculateTTL reads (the harness retries otherwise)",
                   "caller capabilities (update / sudo on the request path) are inputs, read from Core.Capabilities",
                   "Env.sysMax / sysDefault are those of the token store's own system view (ts.System(), the root namespace's "
                   "token mount); that a child namespace's token mount tuning is not consulted is finding F34, seen by the "
                   "direct predicate, not by the model",
                   "a non-expiring token created in a child namespace is revoked at once by the expiration manager; for that "
                   "shape only the creation response is compared (lookup fields are `?` on both sides)"]
    trusted_base = ["Lean 4.33.0 kernel",
                    "model Obao/Model/TokenCreate.lean (+ Obao/Model/TTL.lean) tied to internal/vault/token_store.go, "
                    "request_handling.go, routing/router.go, sdk/helper/policyutil by streams 'tokencreate' and 'login'",
                    "harness/wb/vault/zz_verif_c07_test.go + zz_verif_common_test.go + lib/*.py"]


CHECK = C07()
