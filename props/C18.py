from lib.runner import PropCheck, Stream
from props.C19 import UseCount

SEEKING = ("unwrap1", "unwrap3", "cubby", "rewrap3")      # attempts that retrieve (or transfer) the payload
NOUSE = ("lookup1", "lookup3")                            # attempts that do not use the token
FINDING_REWRAP = "third-party-rewrap-leaves-old-wrapping-token"
GRANTED = {("cubbyhole/response", "read"), ("cubbyhole/response", "create"), ("sys/wrapping/unwrap", "update")}


def obtained(cl):
    return "+payload" in cl or "+rewrapped" in cl


class WrapUse(Stream):
    name = "wrapuse"
    driver = "wrapuse"
    harness = UseCount.harness
    testname = "TestVerifC18"
    rule = ("real Core on a gated in-memory backend: a secret read / token creation / list is response-wrapped (TTL 1 h), "
            "then k = 2..3 goroutines attempt unwrap (token as client token or in the body), rewrap, wrapping lookup, a direct "
            "read of cubbyhole/response, an unrelated request with the wrapping token; seeded schedules (random, bursts, "
            "sequential) at storage-operation granularity; observed events, outcomes (payload obtained or not), final "
            "existence of token entry / cubbyhole keys, a later attempt and the unwrap of a rewrapped token are replayed "
            "on the Lean model; 12 (thorough 120) sequential rewrap histories (wrap, lookup, third-/first-party rewrap generations, "
            "lookup on each new token, unwrap) comparing creation_path / creation_ttl / creation-time class of lookup and of every "
            "wrap_info; plus, sequentially, 20 policy probes with fresh wrapping tokens, each once with the wrapping requested by root and once by a token bound to an identity entity whose identity policy grants the probed paths, and TTL expiry (1 s TTL, "
            "2.2 s sleep); non-trivial = answer is not a refusal; distinct = distinct op line")

    def nontrivial(self, op, impl):
        return impl != "bad-op" and not impl.startswith("abort")

    def case_predicate(self, ops, impls):
        out = []
        first = ops[0].split("\t")
        if first[0] == "wseq":
            for o, a in zip(ops, impls):
                f = o.split("\t")
                if f[0] == "probe" and a == "allowed" and (f[1], f[2]) not in GRANTED:
                    out.append({"what": "wrapping token (wrapping requested by %s) was allowed %s on %s" % (f[3] if len(f) > 3 else "root", f[2], f[1]),
                                "signature": "wrapping-token-grants-more"})
                if f[0] == "probe" and a.startswith("nowrap"):
                    out.append("response to the original requester is not wrap-info only: " + a)
                if f[0] == "wused" and (obtained(a) or a.startswith("ok")):
                    out.append("wrapping token still usable after a request consumed its use: " + a)
                if f[0] == "expiry" and (obtained(a) or a.startswith("ok")):
                    out.append("payload obtainable after the wrapping token's TTL elapsed: " + a)
            return out
        if first[0] == "hist":
            # lookup reports the path (and TTL) of the request that was ORIGINALLY wrapped, after any number of rewraps
            path, ttl = first[1], first[2]
            want = "path:%s/ttl:%s" % (path, ttl)
            hist, live, gen = [], True, 0
            for o, a in zip(ops, impls):
                f = o.split("\t")
                hist.append(" ".join(f) + " => " + a)
                where = "after %d rewrap(s) of a response wrapped for %s (history: %s)" % (gen, path, "; ".join(hist))
                if f[0] == "hist" and a != want:
                    out.append("wrap_info handed to the requester does not name the wrapped request: " + where)
                elif f[0] == "hlookup" and a.startswith("path:"):
                    if not a.startswith(want + "/"):
                        out.append("sys/wrapping/lookup does not report the path / TTL of the originally wrapped request " + where)
                    elif not a.endswith("/time:fresh"):
                        out.append("sys/wrapping/lookup reports a creation time outside the token's creation " + where)
                    if not live:
                        out.append("lookup answered for a wrapping token that was already used " + where)
                elif f[0] == "hlookup" and live:
                    out.append("lookup on the live wrapping token failed (%s) %s" % (a, where))
                elif f[0] == "hrewrap" and a.startswith("path:"):
                    gen += 1
                    if a != want:
                        out.append("rewrap's wrap_info does not name the originally wrapped request " + where)
                elif f[0] == "hrewrap":
                    if live and f[1] == "3":
                        out.append("third-party rewrap of the live token failed (%s) %s" % (a, where))
                    live = False if f[1] == "1" else live
                elif f[0] == "hunwrap":
                    if live != obtained(a):
                        out.append("unwrap at the end of the chain: %s (token live: %s) %s" % (a, live, where))
                    live = False
            return out
        if first[0] in ("cgunwrap", "cgstanza"):
            return []          # predicate-level lines: the harness's own marker is the verdict
        if first[0] != "winit":
            return ["case without winit"]
        kinds = first[3:]
        k = int(first[2])
        if impls[0] != "wrapinfo-only":
            out.append("response to the original requester is not wrap-info only: " + impls[0])
            return out
        done, final, after, wnew, wlookup, abort, user = {}, None, None, [], None, None, None
        for o, a in zip(ops, impls):
            f = o.split("\t")
            if f[0] == "ev" and f[2] == "put" and f[3] == "tok-id" and user is None:
                user = int(f[1])
            if f[0] == "done":
                done[int(f[1])] = a
            elif f[0] == "wfinal":
                final = a
            elif f[0] == "wafter":
                after = (f[1], a)
            elif f[0] == "wnew":
                wnew.append(a)
            elif f[0] == "wlookup":
                wlookup = a
            elif f[0] == "abort":
                abort = a
        if abort:
            return ["schedule could not be driven to completion: " + abort]
        if wlookup is not None and "+path" not in wlookup:
            out.append("wrapping lookup does not report the creation path: " + wlookup)
        if len(done) != k:
            out.append("not every attempt completed")
            return out
        if any(v == "panic" for v in done.values()):
            out.append("an attempt panicked")
        winners = [t for t, cl in done.items() if obtained(cl)]
        if len(winners) > 1:
            out.append("more than one attempt obtained the wrapped response: %s" % sorted(done.items()))
        users = [t for t in range(k) if kinds[t] not in NOUSE]
        if users and all(kinds[t] in SEEKING for t in users) and len(winners) != 1:
            out.append("not exactly one attempt obtained the wrapped response although every attempt ran to completion: %s"
                       % sorted(done.items()))
        for t, cl in done.items():
            if obtained(cl) and kinds[t] not in SEEKING:
                out.append("attempt of kind %s obtained the payload" % kinds[t])
        if final is not None:
            parts = final.split("/")
            tok, pl, wi = parts[0][len("token:"):], parts[1].split(":")[1], parts[2].split(":")[1]
            if users:
                if tok != "gone" or pl != "0" or wi != "0":
                    w = {"what": "token / payload still exist after the wrapping token was used (use by thread %s, kind %s): %s"
                                 % (user, kinds[user] if user is not None else "?", final)}
                    if user is not None and kinds[user] == "rewrap3" and final == "token:pending/payload:1/wrapinfo:1":
                        w["signature"] = FINDING_REWRAP
                    out.append(w)
            elif tok != "uses:1" or pl != "1":
                out.append("unused wrapping token lost its payload: " + final)
        if after and users and (obtained(after[1]) or after[1].startswith("ok+")):
            out.append("a later attempt succeeded after the wrapping token was used: %s" % (after,))
        for w in wnew:
            a, b = w.split("|")
            if not obtained(a) or obtained(b) or b.startswith("ok"):
                out.append("rewrapped token does not reveal its payload exactly once: " + w)
        return out


class WrapRevoke(WrapUse):
    """attempts racing with an explicit revocation by root: predicate only (the revocation path is C04's model)"""
    name = "wraprevoke"
    driver = "wrapfree"
    testname = "TestVerifC18Revoke"
    rule = ("as 'wrapuse' with one goroutine revoking the wrapping token (auth/token/revoke as root) among the attempts; "
            "not replayed on the model (revocation is modelled in C04): only the property predicate is evaluated - at most "
            "one attempt obtains the payload, afterwards the entry is gone or pending and later attempts fail")

    def norm_impl(self, op, impl):
        return "-"

    def case_predicate(self, ops, impls):
        out = []
        first = ops[0].split("\t")
        if first[0] != "winit":
            return []
        kinds, k = first[3:], int(first[2])
        if impls[0] != "wrapinfo-only":
            return ["response to the original requester is not wrap-info only: " + impls[0]]
        done, final, after = {}, None, None
        for o, a in zip(ops, impls):
            f = o.split("\t")
            if f[0] == "done":
                done[int(f[1])] = a
            elif f[0] == "wfinal":
                final = a
            elif f[0] == "wafter":
                after = (f[1], a)
            elif f[0] == "abort":
                return ["schedule could not be driven to completion: " + a]
        if len(done) != k:
            return ["not every attempt completed"]
        winners = [t for t, cl in done.items() if obtained(cl)]
        if len(winners) > 1:
            out.append("more than one attempt obtained the wrapped response: %s" % sorted(done.items()))
        for t, cl in done.items():
            if obtained(cl) and kinds[t] not in SEEKING:
                out.append("attempt of kind %s obtained the payload" % kinds[t])
            if cl == "panic":
                out.append("an attempt panicked")
        if final is not None:
            tok = final.split("/")[0][len("token:"):]
            if tok not in ("gone", "pending"):
                out.append("wrapping token still usable after revocation / use: " + final)
        if after and (obtained(after[1]) or after[1].startswith("ok+")):
            out.append("a later attempt succeeded after the wrapping token was revoked / used: %s" % (after,))
        return out


class C18(PropCheck):
    pid = "C18"
    streams = [WrapUse(), WrapRevoke()]
    level_text = ("Lean theorems over the use-count micro-step model (C19) instantiated at num_uses = 1 with the cubbyhole "
                  "payload, for any number and mix of attempts (first-/third-party unwrap and rewrap, wrapping lookup, direct "
                  "cubbyhole read, other requests) and EVERY schedule: wrapping_token_used_at_most_once, unwrap_at_most_once, "
                  "unwrap_exactly_once (all attempts payload-seeking or lookups, all returned => exactly one obtained it), "
                  "payload_only_through_use, after_unwrap_gone (entry invisible in every continuation, nobody else passes), "
                  "after_unwrap_deleted (two worker steps later token, payload and wrap info are deleted; full since the repair "
                  "of F44), third_party_unwrap_deletes, "
                  "payload_not_to_requester, wrap_token_grants_nothing_else, lookup_reports_creation_path (any history of rewrap "
                  "generations: lookup on the live token reports path and TTL of the ORIGINAL request). Tie: trace validation of observed schedules of a "
                  "real Core on a gated backend on every run, policy probes, TTL expiry; the property predicate is evaluated "
                  "directly on the observed outcomes")
    level_note = ("trusted: Lean kernel; hand-written model Obao/Model/UseCount.lean and its trace-validation tie; explicit "
                  "revocation of the wrapping token concurrent with unwrap attempts is exercised by a predicate-only stream "
                  "(not modelled); JWT-format wrapping tokens and control-group deferral are not exercised; the policy theorem "
                  "is about the transliterated policy text, tied by 20 probes")
    technique = "Lean 4 invariant proof over all schedules (shared with C19) + trace validation against the real Core"
    assumptions = ["sync.RWMutex provides mutual exclusion", "single active node", "storage operations do not fail",
                   "wrapping tokens in the default (non-JWT) format"]
    trusted_base = ["Lean 4.33.0 kernel", "model Obao/Model/UseCount.lean tied to internal/vault (wrapping.go, logical_system.go "
                    "sys/wrapping/*, request_handling.go, token_store.go) by stream 'wrapuse'",
                    "harness/wb/vault/zz_verif_c18_test.go + zz_verif_c19_test.go + zz_verif_common_test.go + lib/*.py"]


CHECK = C18()
