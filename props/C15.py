import re
from lib.runner import PropCheck, Stream

# ---------------------------------------------------------------------------------------------------------
# The property's own predicate on implementation outputs.  Deliberately independent of the Go validateNames
# and of the Lean model: names are read as lists of labels, never through string-suffix tests.
# ---------------------------------------------------------------------------------------------------------


def unhex(s):
    if s in ("-", "e"):
        return ""
    return bytes.fromhex(s).decode("utf-8", "replace")


def hlist(s):
    return [] if s == "-" else [unhex(x) for x in s.split(",")]


def plist(s):
    return [] if s == "-" else s.split(",")


def kvs(fields):
    d = {}
    for f in fields:
        if "=" in f:
            k, v = f.split("=", 1)
            d[k] = v
    return d


def modelled(s):
    """inside the alphabet the Lean model covers (else both sides are answered `skip`)"""
    return all(32 < ord(c) < 127 and c != "," for c in s) and "xn--" not in s.lower()


LABEL = re.compile(r"[A-Za-z0-9]([A-Za-z0-9-]*[A-Za-z0-9])?\Z")


def is_label(l):
    return LABEL.match(l) is not None


def glob_match(pattern, s):
    rx = ".*".join(re.escape(p) for p in pattern.split("*"))
    return re.fullmatch(rx, s, re.S) is not None


def under(ls, base):
    """ls = at least one more label in front of base"""
    return len(ls) > len(base) and ls[len(ls) - len(base):] == base


class NRole:
    def __init__(self, kv):
        self.ad = hlist(kv["ad"])
        for k in ("bare", "sub", "glob", "wild", "lh", "any", "enf", "tdn"):
            setattr(self, k, kv[k] == "1")
        self.dn = unhex(kv["dn"])
        self.cnv = plist(kv["cnv"])


def host_shape(host):
    labels = host.split(".")
    if "*" in host:
        parts = labels[0].split("*")
        if len(parts) != 2 or any(p and not is_label(p) for p in parts):
            return False
        rest = labels[1:]
    else:
        rest = labels
    return all(is_label(l) for l in rest) and all(len(l) <= 63 for l in labels) and len(host) <= 253


def name_allowed(r, name):
    """label-level reading of the role: may `name` appear in a certificate issued under it?"""
    if name == "" or name.count("@") > 1:
        return False
    is_email = "@" in name
    host = name.split("@")[1] if is_email else name
    labels = host.split(".")
    if "*" in host:
        if not r.wild or is_email:
            return False
        if labels[0].count("*") != 1 or any("*" in l for l in labels[1:]):
            return False
    if r.enf and host.isascii() and not host_shape(host):   # non-ASCII hosts: the IDNA conversion is trusted
        return False
    if r.any:
        return True
    low = [l.lower() for l in labels]
    if r.lh:
        for base in (["localhost"], ["localdomain"]):
            if labels == base or (r.sub and under(labels, base)):
                return True
    if r.tdn and r.dn:
        if name == r.dn:
            return True
        if r.sub:
            if under(labels, r.dn.split(".")):
                return True
            if is_email and r.dn.count("@") == 1 and under(labels, r.dn.split("@")[1].split(".")):
                return True
    for d in r.ad:
        if d == "":
            continue
        if r.bare and (name.lower() == d.lower() or (is_email and host.lower() == d.lower())):
            return True
        if r.sub and under(low, [x.lower() for x in d.split(".")]):
            return True
        if r.glob and "*" in d and glob_match(d, name):
            return True
    return False


def wildcard_localhost(r, name):
    ls = name.split(".")
    return (r.lh and not r.sub and "@" not in name and len(ls) == 2 and ls[0].count("*") == 1
            and ls[1] in ("localhost", "localdomain"))


def enforce_only_gap(r, name):
    """the name fails only the enforce_hostnames reading, and has one of the two shapes whose reduced name is
    empty: `local@` (empty e-mail domain) or `<wildcard label>.` (wildcard label followed by a bare dot)"""
    if not r.enf or name.count("@") > 1:
        return False
    host = name.split("@")[1] if "@" in name else name
    shape = ("@" in name and host == "") or (host.endswith(".") and host.count(".") == 1 and host.count("*") == 1)
    if not shape:
        return False
    r.enf = False
    try:
        return name_allowed(r, name)
    finally:
        r.enf = True


KU_BITS = {"digitalsignature": 1, "contentcommitment": 2, "keyencipherment": 4, "dataencipherment": 8, "keyagreement": 16,
           "certsign": 32, "crlsign": 64, "encipheronly": 128, "decipheronly": 256}
EKU = {"any": 0, "serverauth": 1, "clientauth": 2, "codesigning": 3, "emailprotection": 4, "ipsecendsystem": 5,
       "ipsectunnel": 6, "ipsecuser": 7, "timestamping": 8, "ocspsigning": 9, "microsoftservergatedcrypto": 10,
       "netscapeservergatedcrypto": 11}


def iss_predicate(op_fields, impl):
    kv = kvs(op_fields[1:])
    if impl == "panic":
        return ["the engine panicked on an issuance request"]
    if not impl.startswith("ok "):
        return []
    rec = kvs(impl.split(" ")[1:])
    ep = kv["ep"]
    out = []
    if rec["sig"] != "1":
        out.append("issued certificate does not verify under the issuing CA's key")
    if rec["fresh"] != "1":
        out.append("serial number already used on this mount")
    if rec["ca"] != "0":
        out.append("CA certificate produced by a leaf endpoint (%s)" % ep)
    na, ioff = int(rec["na"]), int(kv["ioff"])
    if kv["lnab"] != "permit" and na > ioff:
        out.append("notAfter exceeds the issuer's notAfter although leaf_not_after_behavior=%s" % kv["lnab"])
    role_applies = not (ep == "verbatim" and kv["norole"] == "1")
    maxttl = int(kv["maxttl"]) if role_applies else 0
    effmax = maxttl if maxttl > 0 else int(kv["mmax"])
    rna = kv["rna"] if ep != "verbatim" else "-"
    # (sign-verbatim/<role> keeps the role's not_after_bound next to its ttl / max_ttl: finding F108)
    nab = kv["nab"] if role_applies else "unset"
    if kv["qna"] == "-" and rna == "-" and na > effmax:
        out.append("notAfter exceeds now + role/mount maximum TTL and no not_after was requested")
    if nab == "ttl-limited" and rna == "-" and na > effmax:
        out.append("notAfter exceeds now + maximum TTL under not_after_bound=ttl-limited")
    # behaviour err must refuse, not truncate: what was asked for, computed from the request alone
    if rna != "-":
        asked = int(rna)
    elif kv["qna"] != "-":
        asked = int(kv["qna"])
    else:
        t = int(kv["rttl"])
        if t == 0 and role_applies and int(kv["ttl"]) > 0:
            t = int(kv["ttl"])
        if t == 0:
            t = int(kv["mdef"])
        asked = min(t, effmax)
    if kv["lnab"] == "err" and asked > ioff:
        out.append("a lifetime beyond the issuer's notAfter was requested under leaf_not_after_behavior=err and the "
                   "request was not refused (notAfter=%d, asked=%d, issuer=%d)" % (na, asked, ioff))
    if nab.startswith("ts:") and na > int(nab[3:]):
        out.append("notAfter exceeds the role's not_after_bound timestamp")
    if nab == "forbid" and rna == "-" and kv["qna"] != "-":
        out.append("a requested not_after was honoured under not_after_bound=forbid")
    # start of the validity: a role-pinned not_before is the certificate's NotBefore on every endpoint that applies the role;
    # an inverted validity is never issued
    nb = int(rec["nb"])
    if role_applies and ep != "verbatim" and kv.get("rnb", "-") != "-" and nb != int(kv["rnb"]):
        out.append({"what": "the role pins not_before to %s but the certificate made by %s starts at %d (relative to now)" % (kv["rnb"], ep, nb),
                    "signature": "role-not-before-ignored"})
    if nb > na:      # whole seconds: equal instants are a one-second validity (both ends inclusive), not an inverted one
        out.append({"what": "certificate with an inverted validity (notBefore %d, notAfter %d)" % (nb, na),
                    "signature": "validity-inverted"})
    if int(kv["rttl"]) > 0 and (rna != "-" or kv["qna"] != "-"):
        out.append("ttl and not_after were both given and the request was not refused")
    # key type / size
    if ep == "issue":
        want_kt, want_kb = kv["kt"], int(kv["kb"])
        if want_kt == "any":
            want_kt = kv["qkt"]
            want_kb = int(kv["qkb"]) if kv["qkb"] != "-" else want_kb
        if want_kb == 0:
            want_kb = {"rsa": 2048, "ec": 256}.get(want_kt, 0)
        if rec["kt"] != want_kt or (want_kt != "ed25519" and int(rec["kb"]) != want_kb):
            out.append("generated key %s/%s is not what the role/request fixes (%s/%d)" % (rec["kt"], rec["kb"], want_kt, want_kb))
    elif ep == "sign":
        if kv["kt"] != "any":
            if rec["kt"] != kv["kt"]:
                out.append("signed a %s key under a role that requires %s" % (rec["kt"], kv["kt"]))
            elif rec["kt"] in ("rsa", "ec") and int(rec["kb"]) < int(kv["kb"]):
                out.append("signed a %s-bit key under a role that requires at least %s" % (rec["kb"], kv["kb"]))
    if rec["kt"] == "rsa" and int(rec["kb"]) < 2048:
        out.append("certificate over an RSA key below 2048 bits")
    if ep in ("issue", "sign"):
        # usages
        ku = 0
        for k in plist(kv["ku"]):
            ku |= KU_BITS.get(k.strip().lower(), 0)
        if int(rec["ku"]) & ~ku:
            out.append("key usage bits outside the role's key_usage")
        allowed = set()
        for flag, v in (("sf", 1), ("cf", 2), ("csf", 3), ("epf", 4)):
            if kv[flag] == "1":
                allowed.add(v)
        for k in plist(kv["eku"]):
            if k.strip().lower() in EKU:
                allowed.add(EKU[k.strip().lower()])
        if any(int(e) not in allowed for e in plist(rec["eku"])):
            out.append("extended key usage outside the role's flags/ext_key_usage")
        # Subject serialNumber: permitted by an entry of allowed_serial_numbers (glob when it contains '*', else equal)
        if rec.get("ssn", "-") != "-":
            import fnmatch
            ssn = bytes.fromhex(rec["ssn"]).decode("utf-8", "replace")
            pats = [bytes.fromhex(x).decode("utf-8", "replace") for x in kv.get("asn", "-").split(",") if x not in ("-", "")]
            def ok(p):
                if p == "":
                    return False
                if "*" in p:
                    import re as _re
                    return _re.fullmatch(".*".join(_re.escape(t) for t in p.split("*")), ssn, _re.S) is not None
                return p == ssn
            if not any(ok(p) for p in pats):
                out.append({"what": "the certificate carries the Subject serialNumber %r, which no entry of the role's "
                                    "allowed_serial_numbers %r permits" % (ssn, pats), "signature": "subject-serial-not-allowed"})
        # SAN kinds
        if rec["ip"] != "-" and kv["ipok"] != "1":
            out.append("IP SAN although the role has allow_ip_sans=false")
        if rec["ip"] != "-" and kv.get("acidr", "-") != "-":
            import ipaddress
            nets = []
            for c in kv["acidr"].split(","):
                fam, base, plen = c.split(":")
                nets.append((fam, int(base), int(plen)))
            for ip in rec["ip"].split(","):
                a = ipaddress.ip_address(ip)
                fam, w = ("4", 32) if a.version == 4 else ("6", 128)
                if not any(f == fam and (int(a) >> (w - pl)) == (b >> (w - pl)) for f, b, pl in nets):
                    out.append({"what": "IP SAN %s lies outside every network of the role's allowed_ip_sans_cidr" % ip,
                                "signature": "ip-san-outside-allowed-cidr"})
        pats = hlist(kv["auri"])
        for u in hlist(rec["uri"]):
            if not any(glob_match(p, u) for p in pats):
                out.append("URI SAN %r matches none of allowed_uri_sans" % u)
        # names
        r = NRole(kv)
        names = [("dns", n) for n in hlist(rec["dns"])] + [("email", n) for n in hlist(rec["em"])]
        cn = unhex(rec["cn"])
        if cn and r.cnv != ["disabled"]:
            names.append(("cn", cn))
        empty_san = kv["csr"] == "1" and kv["usans"] == "1" and ("e" in kv["cdns"].split(",") or "e" in kv["cem"].split(","))
        for kind, n in names:
            if name_allowed(r, n):
                continue
            f = {"what": "%s %r in a certificate from %s/<role> is not permitted by the role" % (kind, n, ep)}
            if wildcard_localhost(r, n):
                f["signature"] = "wildcard-localhost-without-subdomains"
                f["what"] += " (wildcard over localhost with allow_subdomains=false)"
            elif enforce_only_gap(r, n):
                f["signature"] = "empty-reduced-name-skips-enforce-hostnames"
                f["what"] += " (enforce_hostnames: the hostname test is skipped when the reduced name is empty)"
            elif empty_san and kind != "cn":
                f["signature"] = "empty-san-short-circuits-validateNames"
                f["what"] += " (the CSR carries an empty SAN entry in front of it)"
            out.append(f)
    return out


class PKIStream(Stream):
    name = "pki"
    driver = "pki"
    harness = {"name": "pki", "module": "root", "pkg": "./internal/builtin/logical/pki",
               "files": {"internal/builtin/logical/pki/zz_verif_c15_test.go": "wb/pki/zz_verif_c15_test.go",
                         "internal/zzverif/vh/vh.go": "vh/vh.go"}}
    testname = "TestVerifC15"
    rule = ("(1) idna.ToASCII / hostnameRegex / leftWildLabelRegex / glob.Glob on names from a label alphabet (wildcard, "
            "upper-case, e-mail, empty-label, over-long, unicode forms); (2) validateNames and validateCommonName called "
            "white-box on one name under generated roles (0-3 allowed domains incl. globs, all switches, token display "
            "name, cn_validations); (3) whole requests to issue/sign/sign-verbatim through Backend.HandleRequest on inmem "
            "storage with an EC root of 1000 s .. mount maximum, generated roles (names, key type/bits, ttl/max_ttl, "
            "not_before*/not_after*, usages, CSR switches), issuer leaf_not_after_behavior err/truncate/permit, requests with "
            "names, IP/URI SANs, ttl/not_after/not_before, harness-built CSRs (EC/RSA/Ed25519, BasicConstraints CA:TRUE, "
            "empty SAN entries); the certificate is parsed with crypto/x509; non-trivial = a certificate was issued or a "
            "helper returned a positive answer; distinct = distinct op line; names outside ASCII are compared as `skip`")

    def _skip(self, op):
        f = op.split("\t")
        if f[0] == "idna":
            return not modelled(unhex(f[1]))
        if f[0] in ("vname", "vcn"):
            kv = kvs(f[1:])
            return not all(modelled(s) for s in [unhex(kv["n"]), unhex(kv["dn"])] + hlist(kv["ad"]))
        if f[0] == "iss":
            kv = kvs(f[1:])
            if int(kv["rttl"]) < 0:
                return False
            ss = [unhex(kv["cn"]), unhex(kv["dn"])] + hlist(kv["alt"]) + hlist(kv["ad"]) + hlist(kv["uri"]) + hlist(kv["auri"])
            if kv["csr"] == "1":
                ss += [unhex(kv["ccn"])] + hlist(kv["cdns"]) + hlist(kv["cem"]) + hlist(kv["curi"])
            return not all(modelled(s) for s in ss)
        return False

    def norm_impl(self, op, impl):
        impl = impl.split("!VIOL:", 1)[0]
        if self._skip(op):
            return "skip"
        return impl

    def nontrivial(self, op, impl):
        k = op.split("\t", 1)[0]
        if k == "iss":
            return impl.startswith("ok ")
        if k == "idna":
            return impl.startswith("ok:")
        return impl == "1"

    def predicate(self, op, impl):
        f = op.split("\t")
        if f[0] != "iss":
            if impl == "panic":
                return "validateNames panicked"
            return None
        fails = iss_predicate(f, impl)
        return fails[0] if fails else None


class C15(PropCheck):
    pid = "C15"
    streams = [PKIStream()]
    level_text = ("Lean theorems over a transliterated model of the PKI engine's name validation (validateNames, "
                  "validateCommonName, wildcard rules, hostname/wildcard-label regexes, go-glob, the ASCII part of "
                  "idna.ToASCII), validity computation (getCertificateNotBefore/NotAfter with role/mount maxima, "
                  "not_after_bound, issuer leaf_not_after_behavior) and the issue/sign/sign-verbatim request pipeline: "
                  "names_impl_sound (string-suffix implementation never accepts a name the label-level reading of the role "
                  "forbids, all strings), validity_bounded, leaf_unless_ca_endpoint and companions; the model is tied to the "
                  "Go code by a differential stream (helpers, validateNames white-box, whole requests with parsed "
                  "certificates) on every run, and the property is evaluated directly on every issued certificate by an "
                  "independent label-level predicate")
    level_note = ("trusted: Lean kernel; hand-written model and its differential tie; crypto/x509 (encoding, signature "
                  "check), IDNA for non-ASCII names (compared as skip), net.ParseIP/url.Parse; signatures and serial "
                  "randomness are symbolic; partial theorems (_partial/_cex) are listed as such in the evidence")
    technique = ("Lean 4 theorems (structural induction over strings/label lists, case analysis + omega) + white-box "
                 "differential correspondence + independent predicate on parsed certificates")
    assumptions = ["all time.Now() calls of one request fall into one wall-clock second (the harness retries otherwise)",
                   "names are ASCII without ACE labels in the model; other names are compared only as `skip`",
                   "durations within +-2^61 ns (no int64 overflow)"]
    trusted_base = ["Lean 4.33.0 kernel",
                    "models Obao/Model/PKINames.lean, PKIValidity.lean, PKIIssue.lean tied to internal/builtin/logical/pki "
                    "and sdk/helper/certutil by stream 'pki'",
                    "harness/wb/pki + lib/*.py; crypto/x509 parsing and CheckSignatureFrom"]


CHECK = C15()
