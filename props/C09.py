"""C09 — raft replicas applying the same committed log reach the same state and the same verdicts.

Stream `raftfsm`: k real FSMs per case, same log, different batchings / restart / snapshot-install positions
(harness/wb/raft/zz_verif_c09_test.go) against the Lean model (lean/Obao/Model/RaftFSM.lean, driver stream
`raftfsm`).  The property predicate is evaluated here, on the implementation's outputs only:
  P1  all replicas report the same verdict for every log entry and the same data at equal log positions;
  P2  a batch in which every entry was rejected (or is a configuration entry) leaves the data unchanged;
  P3  a restart changes neither data nor latest index; a snapshot install yields the source's data and index;
  P4  latest index after a batch = max(previous, index of the last entry); no panic / error results.
A verdict divergence is attributed to a known finding only when it structurally matches it: the bookkeeping of
the fast-application tracker is replayed from the implementation's own verdicts, and the committing replica
must have lost every tracker record the rejecting replica used — by a restart / snapshot install (F1) or by
`clearOldEntries` at one of its batch ends (F10).  Any other divergence is a fresh violation.
"""
import os, time
from lib import core
from lib.core import TieBroken
from lib.runner import PropCheck, Stream, eval_predicates

SIG_F1 = "F1:restart-empty-tracker-divergent-verdict"
SIG_F10 = "F10:batching-dependent-verdict"
SIG_F7L = "F30:leader-local-clear-divergent-verdict"
KNOWN_SIGS = (SIG_F1, SIG_F10, SIG_F7L)


def unhex(h):
    return b"" if h == "-" else bytes.fromhex(h)


class Op:
    __slots__ = ("kind", "key", "pfx")


def parse_entry(field):
    """-> dict(idx, low, config, tx, start, reads[keys], lists[prefixes], writes[keys], raw)"""
    idx, low, cmd = field.split(";", 2)
    e = {"idx": int(idx), "low": None if low == "-" else int(low), "config": cmd == "G", "tx": False,
         "start": 0, "reads": [], "lists": [], "writes": [], "raw": field}
    if cmd in ("G", "-"):
        return e
    ops = cmd.split(",")
    for i, o in enumerate(ops):
        f = o.split(":")
        if i == 0 and f[0] == "b":
            e["tx"] = True
            e["start"] = int(f[1])
        elif f[0] in ("p", "d"):
            e["writes"].append(unhex(f[1]))
        elif f[0] == "r":
            e["reads"].append(unhex(f[1]))
        elif f[0] == "l":
            e["lists"].append(unhex(f[1]))
    return e


def list_hit(prefix, modified):
    """hasModifiedListEntry for one recorded key set"""
    if not modified:
        return False
    if prefix in (b"", b"/"):
        return True
    norm = prefix if prefix.endswith(b"/") else prefix + b"/"
    return any(m.startswith(norm) for m in modified)


class Rep:
    def __init__(self):
        self.latest = 0
        self.state = "0|0|-"        # latest|cfg|digest as last reported
        self.tracker = {}           # idx -> frozenset(keys): replay of indexModifiedMap from impl verdicts
        self.lost = {}              # idx -> cause ("restart" | "snapshot" | "clear") for consumed, unrecorded indexes
        self.consumed = set()       # indexes applied through ApplyBatch
        self.verdict = {}           # idx -> char
        self.txinfo = {}            # idx -> dict(can_fast, tracker snapshot)
        self.at = {}                # latest index -> state string (states at batch ends / after installs)


def hits_of(verif, start, tracker):
    """indexes of the tracker records that force verification `verif` = ('r', key) | ('l', prefix) of a
    transaction with start index `start` to be evaluated (hasModifiedEntry / hasModifiedListEntry)"""
    kind, k = verif
    out = []
    for w, ks in tracker.items():
        if w <= start:
            continue
        if (kind == "r" and k in ks) or (kind == "l" and list_hit(k, ks)):
            out.append(w)
    return sorted(out)


def analyse_case(ops, impls):
    fails = []
    reps = []
    entries = {}
    for o, a in zip(ops, impls):
        f = o.split("\t")
        kind = f[0]
        if a == "panic" or a.startswith("err"):
            fails.append({"what": "FSM %s returned %s" % (kind, a), "signature": "fsm-panic-or-error", "op": o[:300]})
            return fails, reps, entries
        if kind == "new":
            reps.append(Rep())
            continue
        r = reps[int(f[1])]
        if kind == "batch":
            es = [parse_entry(x) for x in f[2:]]
            verd, latest, cfg, dig = a.split("|", 3)
            prev_state = r.state
            prev_latest = r.latest
            if len(verd) != len(es) or "?" in verd:
                fails.append({"what": "malformed ApplyBatch response %s" % verd, "signature": "bad-response", "op": o[:300]})
                return fails, reps, entries
            for off, (e, v) in enumerate(zip(es, verd)):
                entries[e["idx"]] = e
                r.consumed.add(e["idx"])
                r.verdict[e["idx"]] = v
                if e["tx"]:
                    r.txinfo[e["idx"]] = {"can_fast": off == 0 and prev_latest == e["start"], "tracker": dict(r.tracker)}
                    if v == "C":
                        r.tracker[e["idx"]] = frozenset(e["writes"])
                elif not e["config"] and e["writes"]:
                    r.tracker[e["idx"]] = frozenset([e["writes"][-1]])
            low = None
            for e in es:
                if not e["config"] and e["low"] is not None:
                    low = e["low"]
            if low is not None:
                for w in [w for w in r.tracker if w < low]:
                    del r.tracker[w]
                    r.lost[w] = "clear"
            # P2 atomicity, P4 latest index
            if all(v in "Xg" for v in verd) and prev_state.split("|", 2)[2] != dig:
                fails.append({"what": "data changed by a batch whose transactions were all rejected",
                              "signature": "rejected-transaction-wrote", "op": o[:300], "before": prev_state, "after": a})
            want = max(prev_latest, es[-1]["idx"])
            if int(latest) != want:
                fails.append({"what": "latest index %s after batch, expected %d" % (latest, want),
                              "signature": "latest-index-wrong", "op": o[:300]})
            r.latest = int(latest)
            r.state = "%s|%s|%s" % (latest, cfg, dig)
            r.at[es[-1]["idx"]] = r.state
        elif kind == "restart":
            if a != r.state:
                fails.append({"what": "restart changed the persistent state", "signature": "restart-changed-state",
                              "before": r.state, "after": a})
            for w in r.tracker:
                r.lost[w] = "restart"
            r.tracker = {}
            r.state = a
        elif kind == "snap":
            src = reps[int(f[2])]
            if a != src.state:
                fails.append({"what": "snapshot install does not reproduce the source's state",
                              "signature": "snapshot-state-differs", "source": src.state, "installed": a})
            for w in src.consumed | set(src.lost):
                if w > r.latest and w not in r.consumed:
                    r.lost[w] = "snapshot"
            # indexes covered by the snapshot count as consumed-but-unrecorded
            r.latest = int(a.split("|", 1)[0])
            r.state = a
            r.at[r.latest] = r.state
        elif kind == "lclear":
            low = int(f[2])
            for w in [w for w in r.tracker if w < low]:
                del r.tracker[w]
                r.lost[w] = "leader-clear"
        elif kind == "digest":
            if a != r.state:
                fails.append({"what": "state read back differs from the state after the last step",
                              "signature": "digest-unstable", "before": r.state, "after": a})
    return fails, reps, entries


def classify(e, i, cr, xr):
    """e: the transaction entry at index i; cr committed it, xr rejected it.  Returns (signature or None, text).
    Both replicas hold the same data (no earlier divergence), so the verdicts can only differ through a
    verification that xr evaluated (a tracker record hit it) and cr skipped (no record hit it).  Each record xr
    used for such a verification must be missing on cr for a modelled reason."""
    ci, xi = cr.txinfo.get(i), xr.txinfo.get(i)
    if ci is None or xi is None:
        return None, "no transaction record"
    if xi["can_fast"]:
        return None, "the rejecting replica was entitled to canFastWrite"
    if ci["can_fast"]:
        return None, "the committing replica took canFastWrite although the other replica holds records after the start index"
    verifs = [("r", k) for k in e["reads"]] + [("l", p) for p in e["lists"]]
    kinds = []
    for v in verifs:
        xh = hits_of(v, e["start"], xi["tracker"])
        ch = hits_of(v, e["start"], ci["tracker"])
        if not xh or ch:
            continue
        causes = {}
        for w in xh:
            c = cr.lost.get(w)
            if c is None:
                return None, "tracker record %d is missing on the committing replica for no modelled reason" % w
            causes[w] = c
        cs = set(causes.values())
        kinds.append(("F1" if cs & {"restart", "snapshot"} else "F7L" if "leader-clear" in cs else "F10", causes))
    if not kinds:
        return None, "no verification was evaluated by the rejecting replica and skipped by the committing one"
    if any(k == "F1" for k, _ in kinds):
        return SIG_F1, "records lost: %s" % [c for k, c in kinds if k == "F1"][0]
    if any(k == "F7L" for k, _ in kinds):
        return SIG_F7L, "records cleared by a replica-local clearOldEntries (Rollback on the leader): %s" % \
            [c for k, c in kinds if k == "F7L"][0]
    return SIG_F10, "records cleared at a batch end: %s" % sorted(kinds[0][1])


class RaftFSMStream(Stream):
    name = "raftfsm"
    driver = "raftfsm"
    harness = {"name": "raftc09", "module": "root", "pkg": "./internal/physical/raft",
               "files": {"internal/physical/raft/zz_verif_c09_test.go": "wb/raft/zz_verif_c09_test.go",
                         "internal/zzverif/vh/vh.go": "vh/vh.go"}}
    testname = "TestVerifC09"
    rule = ("directed F1/F10/leader-rollback logs (those of the Lean witnesses) and defect-free neighbours, then random committed logs (3..24 entries quick, "
            "3..60 thorough; plain puts/deletes, multi-op plain commands, configuration entries, index gaps, "
            "transactions with read/list verification sets observed at a random earlier log position, stale or "
            "unmatched hashes, malformed begin/commit placement; LowestActiveIndex safe / lagging / absent / "
            "adversarial) applied to 2-3 real FSMs under independent random batchings with restarts and snapshot "
            "installs; non-trivial = a batch containing a transaction; distinct = distinct op line")

    def env(self, tier, seed):
        e = {"VERIF_TIER": tier, "VERIF_SEED": seed}
        # the FSMs' bolt files live in t.TempDir(); on a RAM-backed filesystem the run is CPU-bound instead of
        # fsync-bound (durability is not what C09 is about). Falls back to the default temp dir.
        shm = "/dev/shm"
        if os.path.isdir(shm) and os.access(shm, os.W_OK):
            d = os.path.join(shm, "verif-c09-%d" % os.getpid())
            os.makedirs(d, exist_ok=True)
            e["TMPDIR"] = d
        elif "VERIF_C09_CASES" not in os.environ:
            # fsync-bound on a disk-backed temp dir: keep quick near 40 s and thorough near 15 min
            e["VERIF_C09_CASES"] = "14000" if tier == "thorough" else "2000"
        return e

    def nontrivial(self, op, impl):
        return op.startswith("batch\t") and ("C" in impl.split("|", 1)[0] or "X" in impl.split("|", 1)[0])

    def __init__(self):
        self.stats = {}

    def bump(self, k, n=1):
        self.stats[k] = self.stats.get(k, 0) + n

    def collect(self, ops, reps, entries):
        self.bump("cases")
        self.bump("replicas", len(reps))
        self.bump("restarts", sum(1 for o in ops if o.startswith("restart\t")))
        self.bump("snapshot_installs", sum(1 for o in ops if o.startswith("snap\t")))
        self.bump("batches", sum(1 for o in ops if o.startswith("batch\t")))
        self.bump("log_entries", len(entries))
        for r in reps:
            for i, info in r.txinfo.items():
                e = entries[i]
                v = r.verdict.get(i)
                verifs = [("r", k) for k in e["reads"]] + [("l", p) for p in e["lists"]]
                if info["can_fast"]:
                    path = "canFastWrite"
                elif any(hits_of(vf, e["start"], info["tracker"]) for vf in verifs):
                    path = "verified"
                else:
                    path = "tracker-bypass"
                self.bump("txn:%s:%s" % (path, {"C": "commit", "X": "conflict"}.get(v, v)))

    def case_predicate(self, ops, impls):
        fails, reps, entries = analyse_case(ops, impls)
        if fails:
            return fails
        self.collect(ops, reps, entries)
        # P1: verdict agreement, first divergence in log order
        first = None
        for i in sorted(entries):
            vs = [(n, r.verdict[i]) for n, r in enumerate(reps) if i in r.verdict]
            if len(set(v for _, v in vs)) > 1:
                first = (i, vs)
                break
        self.bump("cases_without_divergence" if first is None else "cases_with_divergent_verdict")
        if first is None:
            # no verdict divergence: data must agree wherever two replicas stood at the same log index
            seen = {}
            for n, r in enumerate(reps):
                for idx, st in r.at.items():
                    if idx in seen and seen[idx][1] != st:
                        return [{"what": "replicas %d and %d hold different state at log index %d without any "
                                         "divergent verdict" % (seen[idx][0], n, idx),
                                 "signature": "state-divergence", "a": seen[idx][1], "b": st}]
                    seen.setdefault(idx, (n, st))
            return []
        i, vs = first
        e = entries[i]
        cs = [n for n, v in vs if v == "C"]
        xs = [n for n, v in vs if v == "X"]
        base = {"index": i, "entry": e["raw"], "verdicts": {str(n): v for n, v in vs}}
        if not cs or not xs or len(cs) + len(xs) != len(vs):
            return [dict(base, what="replicas report different verdicts %s for log index %d" % (vs, i),
                         signature="verdict-divergence")]
        out = []
        for c in cs:
            for x in xs:
                sig, why = classify(e, i, reps[c], reps[x])
                if sig is None:
                    return [dict(base, what="replica %d commits and replica %d rejects the transaction at log index "
                                            "%d; not explained by F1/F10: %s" % (c, x, i, why),
                                 signature="verdict-divergence")]
                out.append((sig, c, x, why))
        sigs = [s for s, _, _, _ in out]
        sig = SIG_F1 if SIG_F1 in sigs else SIG_F7L if SIG_F7L in sigs else SIG_F10
        s, c, x, why = [t for t in out if t[0] == sig][0]
        what = {SIG_F1: "replica %d, restarted or snapshot-installed after a write the transaction at log index %d had "
                        "not seen, commits it (empty tracker => verification skipped); replica %d rejects it",
                SIG_F7L: "replica %d (the leader: its Rollback cleared its own tracker, outside the log) commits the "
                         "transaction at log index %d and reports success; replica %d, fed the same batches, rejects it",
                SIG_F10: "replica %d commits the transaction at log index %d because clearOldEntries at one of its "
                         "batch ends dropped the record of a conflicting write; replica %d, batched differently, "
                         "rejects it"}[sig] % (c, i, x)
        return [dict(base, what=what + " (" + why + ")", signature=sig)]


class TrackerStream(Stream):
    name = "rafttracker"
    driver = "rafttracker"
    harness = RaftFSMStream.harness
    testname = "TestVerifC09Tracker"
    rule = ("a real fsmTxnCommitIndexTracker under random logWrite / logTxnWrites (incl. re-assignment of an index) / "
            "clearOldEntries / hasModifiedEntry / hasModifiedListEntry (keys '', '/', with and without trailing "
            "slash; the 'saw later index' panic) / trackTransaction / completeTransaction / lowestActiveIndex[AfterCommit] "
            "and full dumps; non-trivial = a query or dump; distinct = distinct op line within its prefix")

    def nontrivial(self, op, impl):
        return op.split("\t", 1)[0] in ("hme", "hmle", "lowest", "lowestafter", "dump")

    def predicate(self, op, impl):
        # reachable-panic check: with indexes <= maxIndex everywhere the lookup must not panic
        return None


class LeaderStream(Stream):
    name = "raftleader"
    driver = "raftleader"
    harness = {"name": "raftc09", "module": "root", "pkg": "./internal/physical/raft",
               "files": {"internal/physical/raft/zz_verif_c09_test.go": "wb/raft/zz_verif_c09_test.go",
                         "internal/physical/raft/zz_verif_c09l_test.go": "wb/raft/zz_verif_c09l_test.go",
                         "internal/zzverif/vh/vh.go": "vh/vh.go"}}
    testname = "TestVerifC09Leader"
    rule = ("a real single-node RaftBackend (leader) per case, raftchunking.ChunkSize lowered to 600 bytes: plain puts/deletes "
            "and up to three overlapping write transactions (gets, puts, deletes) with values below and above the chunk size "
            "(30% of the values: the operation is split over 2-5 log entries), every operation applied before the next is "
            "submitted, no rollback before the last verdict; the harness records what the leader reported to each client; "
            "the leader's committed log is read back from its log store, re-assembled per operation, translated into the "
            "raftfsm entry language (read verifications matched with what the transaction saw) and the RAW entries are "
            "replayed chunk by chunk (random cuts inside an operation) into an independent real FSM; compared with the model "
            "replica: follower verdict + state per entry, the leader's reported verdict per operation, the leader's own data; "
            "predicate: leader's report = follower's verdict for the same entry, follower data = leader data; "
            "non-trivial = a transaction or a chunked operation; distinct = distinct op line")
    env = RaftFSMStream.env

    def nontrivial(self, op, impl):
        f = op.split("\t")
        return (f[0] == "batch" and ("b:" in op)) or (f[0] == "leader" and (impl[:1] in ("C", "X") or (len(f) > 2 and f[2] != "1")))


RaftFSMStream.harness = LeaderStream.harness
TrackerStream.harness = LeaderStream.harness


class C09(PropCheck):
    pid = "C09"
    streams = [RaftFSMStream(), TrackerStream(), LeaderStream()]
    level_text = ("Lean theorems over a model of FSM.ApplyBatch and the fast-application tracker "
                  "(Obao/Model/RaftFSM.lean): apply_deterministic_full_verify / replicas_agree_full_verify (fast path "
                  "disabled: state and every verdict equal the reference for all logs, all batchings, all restart and "
                  "snapshot-install positions, any number of replicas), fastpath_preserves_ref (under tracker "
                  "completeness the optimised step equals the reference), replicas_agree_partial[_pair] (the Go "
                  "algorithm, all schedules in which every transaction starts at or after the replica's completeness "
                  "watermark), fastpath_watermark_fixed (a watermark repair satisfies the full statement), "
                  "no_tracker_panic; the full statement for the Go algorithm is refuted (replicas_agree_full_false) with "
                  "witnesses on leader-generable logs: restart_breaks_complete_cex / snapshot_breaks_complete_cex (F1), "
                  "batching_breaks_complete_cex (F10), leader_rollback_clear_cex (F7 mechanism). The model is tied to the "
                  "Go code by differential streams over 2-3 real FSMs per case and over a real tracker object on every "
                  "run, and replica agreement is evaluated directly on the real outputs")
    level_note = ("partial on the current tree: full replica agreement is false for the optimised algorithm (F1, F10 and "
                  "the leader-local clearing of Rollback, all reproduced on real FSMs by directed cases of the stream; the "
                  "leader-side race that makes the last one reachable is modelled in Obao/Model/RaftLeader.lean, not driven "
                  "end to end); trusted: Lean kernel, the hand-written "
                  "model and its differential tie, SHA-384 idealised as injective, bbolt, hashicorp/raft log "
                  "replication and chunking")
    technique = ("Lean 4 theorems (induction over event schedules, tracker-completeness / watermark invariant, frame "
                 "lemmas, decide witnesses) + differential correspondence on real FSMs and a real tracker")
    assumptions = ["SHA-384 verification hashes are injective (symbolic hashing)",
                   "each replica is handed committed entries in increasing index order (hashicorp/raft)",
                   "bbolt iterates keys in byte order and commits a batch atomically"]
    trusted_base = ["Lean 4.33.0 kernel",
                    "model Obao/Model/RaftFSM.lean tied to internal/physical/raft (fsm.go, transaction.go, snapshot.go) "
                    "by stream 'raftfsm'",
                    "harness/wb/raft + props/C09.py + lib/*.py"]

    def extra(self, ctx):
        d = os.path.join("/dev/shm", "verif-c09-%d" % os.getpid())
        if os.path.isdir(d):
            import shutil
            shutil.rmtree(d, ignore_errors=True)
        st = self.streams[0]
        stats, st.stats = dict(st.stats), {}
        return {"stats": {"raftfsm-distribution": dict(stats, evaluations=0,
                                                        rule="measured on this run from the implementation trace: cases, "
                                                             "replicas, events, and per applied transaction the path the real "
                                                             "FSM took (replayed tracker bookkeeping) and its verdict")}}

    def search(self, ctx, broken):
        """further seeds of the same harness with more cases; only failures that are not the two known
        signatures count as a concrete failing input"""
        found = []
        t0 = time.time()
        for st in self.streams:
            binp = ctx.get("built", {}).get(st.harness["name"])
            if not binp:
                continue
            for k in range(1, 4):
                if found or time.time() - t0 > 600:
                    break
                seed = str(int(ctx["seed"]) + 7919 * k)
                trace = os.path.join(core.WORK, "trace-%s-%s-search%d.tsv" % (self.pid, st.name, k))
                env = st.env("quick", seed)
                env["VERIF_C09_CASES"] = "1500"
                try:
                    core.run_harness(binp, st.testname, st.cwd(), trace, env, timeout=st.timeout)
                    ops, impl = core.read_trace(trace)
                except TieBroken:
                    continue
                found += [c for c in eval_predicates(st, ops, impl)
                          if c.get("signature") not in KNOWN_SIGS][:3]
        return found


CHECK = C09()
