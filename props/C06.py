from lib.runner import PropCheck, Stream

HARNESS = {"name": "c06wb", "module": "root", "pkg": "./internal/vault",
           "files": {"internal/vault/zz_verif_common_test.go": "wb/vault/zz_verif_common_test.go",
                     "internal/vault/zz_verif_c06_test.go": "wb/vault/zz_verif_c06_test.go",
                     "internal/zzverif/vh/vh.go": "vh/vh.go"}}


def parse_obs(impl):
    """`k=v` segments separated by `|`; the bare segment is the response class"""
    d = {"class": None}
    for seg in impl.split("!VIOL:")[0].split("|"):
        if "=" in seg:
            k, v = seg.split("=", 1)
            d[k] = v
        else:
            d["class"] = seg
    return d


def classes(s):
    if s in (None, "-", ""):
        return {}
    out = {}
    for x in s.split(","):
        k, n = x.rsplit(":", 1)
        out[k] = int(n)
    return out


def viol(sig, what):
    return {"what": what, "signature": "C06:" + sig}


class Register(Stream):
    name = "register"
    driver = "register"
    harness = HARNESS
    testname = "TestVerifC06"
    rule = ("four flows on a real Core (leased secret via a recording backend with service / batch-child / orphan-batch / "
            "root requester, and mounted the modern way / under the legacy stored type `plugin` (non-kv and kv plugin name) / "
            "under the types kv and generic, with and without leased_passthrough; the same read response-wrapped; login on a fake credential backend, service / batch; "
            "auth/token/create[-orphan], service / batch child) x number of requester policies; per variant a fault-free dry run (storage-op sequence), EVERY "
            "single fault position k <= N of the request goroutine, and EVERY crash point (snapshot after each physical "
            "write, new core on the copy, restore, lookup probe); non-trivial = the fault fired / a crash point; distinct = "
            "distinct (variant, plan)")

    def nontrivial(self, op, impl):
        kind = op.split("\t", 1)[0]
        if kind == "fault":
            return "!" in impl.split("|", 1)[0]
        return kind in ("dry", "crash")

    def predicate(self, op, impl):
        base = Stream.predicate(self, op, impl)
        if base:
            return base
        f = op.split("\t")
        kind = f[0]
        if kind not in ("dry", "fault", "crash") or len(f) < 7:
            return None
        flow, req, typ, mnt = f[1], f[2], f[4], f[6]
        # the only mounts that may answer with a secret and no lease: stored type kv / generic, or the legacy generic
        # type `plugin` with plugin name kv (decided here from the mount kind, not from the model)
        kv_mount = mnt.startswith("kv") or mnt.startswith("gen") or mnt.startswith("pk") or mnt.startswith("pt")
        if impl in ("panic",) or impl.startswith("err:restart") or impl.startswith("err:restore"):
            return viol("harness-observation-failed", "the real code panicked / did not restart: " + impl)
        o = parse_obs(impl)
        new = classes(o.get("new"))
        new2 = classes(o.get("new2"))
        if o.get("ghost", "0") != "0":
            return viol("ghost-tracked-lease", "the expiration manager tracks a lease that has no entry in storage")
        if kind == "crash":
            if o.get("untracked") != "0":
                return viol("crash-untracked-lease", "after restart a lease present in storage is not tracked for expiry")
            # the token's own lease is missing (in the wrapped flow the secret's lease is a lease-id entry too)
            if "tok-id" in new and new.get("lease-id", 0) < (2 if flow == "wrap" else 1):
                if o.get("use") != "0":
                    return viol("crash-token-without-lease-usable", "token entry without lease is usable after restart")
                if "tok-id" in new2 or "logical" in new2:
                    return viol("crash-token-without-lease-not-cleaned", "token entry without lease (or its cubbyhole) survives a lookup after restart")
            return None
        cls = o["class"]
        sec, tok, wrap = o.get("sec") == "1", o.get("tok") == "1", o.get("wrap") == "1"
        if cls == "ok" and flow == "wrap":
            if not wrap:
                return viol("ok-without-wrapping-token", "wrapped read succeeded without a wrapping token in the response")
            if sec:
                return viol("wrapped-response-carries-secret", "the wrapped response carries the secret itself")
            if new.get("lease-id", 0) < 2 or o.get("trk") != "2" or new.get("tok-id", 0) < 1:
                return viol("wrap-without-leases", "a wrapping token was returned but the secret's and the token's tracked lease entries do not both exist")
            if req != "o" and new.get("lease-tokidx", 0) < 1:
                return viol("secret-without-token-index", "a wrapped secret was handed out but its token index entry is missing")
            return None
        if cls == "ok":
            if sec and kv_mount and not new:
                return None     # KV exemption: TTL returned, no lease by design
            if sec:
                if new.get("lease-id", 0) < 1 or o.get("trk") != "1":
                    return viol("secret-without-lease", "a secret was returned by a non-KV engine (mount kind %s) but no tracked lease entry exists" % mnt)
                if req != "o" and new.get("lease-tokidx", 0) < 1:
                    return viol("secret-without-token-index", "a leased secret was returned but its token index entry is missing")
            if tok and typ == "s":
                if new.get("lease-id", 0) < 1 or o.get("trk") != "1" or new.get("tok-id", 0) < 1:
                    return viol("token-without-lease", "a service token was returned but no tracked lease entry exists")
            if flow == "secret" and not sec:
                return viol("ok-without-secret", "secret read succeeded without a secret in the response")
            return None
        # error response
        if sec or tok or wrap:
            return viol("error-carries-secret", "an error response carries the secret / client token / wrapping token")
        if o.get("use") != "0":
            return viol("usable-token-after-failure", "the request failed but a usable new token remains")
        iss, rev = int(o.get("iss", "0")), int(o.get("rev", "0"))
        if flow == "wrap" and iss == rev + 1:
            # the failure hit the wrapping after Register succeeded: the undelivered secret must keep exactly its own
            # durable tracked lease (and index); nothing of the wrapping token may be leased
            if new.get("lease-id", 0) != 1 or o.get("trk") != "1" or (req != "o" and new.get("lease-tokidx", 0) != 1):
                return viol("undelivered-secret-without-lease", "wrapping failed and the generated secret is neither revoked nor durably leased: " + o.get("new", ""))
            return None
        if iss != rev:
            return viol("secret-not-revoked", "the request failed but the generated secret was not revoked at its backend")
        if "lease-id" in new or "lease-tokidx" in new:
            return viol("partial-lease-records", "the request failed but lease / token-index records remain: " + o.get("new", ""))
        return None


class RegAuth(Stream):
    name = "regauth"
    driver = "regauth"
    harness = HARNESS
    testname = "TestVerifC06RegAuth"
    rule = ("ExpirationManager.RegisterAuth called directly on the lattice token TTL x auth TTL x policies ([root], [root,x], "
            "[default], [], [x]) x token type x client token (empty / hvs. / plain) x path (with and without '..') x "
            "persistLease; quick = seeded quarter of the 1440 points, thorough = all; non-trivial = accepted")

    def nontrivial(self, op, impl):
        return impl.startswith("ok")

    def predicate(self, op, impl):
        base = Stream.predicate(self, op, impl)
        if base:
            return base
        f = op.split("\t")
        if f[0] != "regauth" or len(f) != 8:
            return None
        tettl, attl, typ, pk, persist = int(f[1]), int(f[2]), int(f[4]), f[5], f[7] == "1"
        pols = "" if f[3] == "-" else bytes.fromhex(f[3]).decode()
        path = "" if f[6] == "-" else bytes.fromhex(f[6]).decode()
        o = parse_obs(impl)
        new = classes(o.get("new"))
        must_refuse = (tettl == 0 and attl <= 0 and pols != "root") or typ == 2 or pk == "0" or ".." in path
        if o["class"] == "ok":
            if must_refuse:
                return viol("regauth-accepts-refusable", "RegisterAuth accepted a lease it must refuse: " + op)
            if persist and (new.get("lease-id", 0) != 1 or o.get("trk") != "1"):
                return viol("regauth-ok-without-lease", "RegisterAuth returned nil but no tracked lease entry exists")
        else:
            if new:
                return viol("regauth-error-leaves-records", "RegisterAuth failed but left records: " + o.get("new", ""))
        if o.get("ghost", "0") != "0":
            return viol("ghost-tracked-lease", "the expiration manager tracks a lease that has no entry in storage")
        return None


class C06(PropCheck):
    pid = "C06"
    streams = [Register(), RegAuth()]
    level_text = ("Lean theorems over a storage-operation-level model of the flows that hand out a leased secret (plain or "
                  "response-wrapped), a login token or a child token (Obao/Model/Register.lean): for EVERY single fault position and every number "
                  "of requester policies the outcome is either success with a stored, tracked lease (and token index) or an "
                  "error without secret/token, the secret revoked at its backend, no lease/index record and no usable token "
                  "(register_fault_atomic, login_fault_atomic, create_fault_atomic, wrap_fault_atomic: there the undelivered secret "
                  "may instead keep its durable tracked lease); for every crash point every stored lease is "
                  "tracked after restart and a token entry without lease is unusable and removed by the next lookup "
                  "(*_crash_safe); RegisterAuth's refusal rules (registerAuth_refusals). The model is tied to the real Core on "
                  "every run: storage-op sequence, response class, backend issued/revoked, leftover key classes, tracking "
                  "and usability are compared for every fault position and crash point, and the property's predicate is "
                  "evaluated directly on every implementation observation")
    level_note = ("trusted: Lean kernel; the hand-written model and its differential tie (harness + driver); single-fault "
                  "quantifier: a second failure inside the rollback / clean-up is outside the property; the physical layer is "
                  "the in-memory backend behind the real barrier (a failed operation has no effect); namespaces other than "
                  "root are not exercised")
    technique = ("Lean 4 theorems (fault countdown over a monadic micro-step model; induction over the read phases, case "
                 "analysis of the remaining positions) + differential correspondence per fault position / crash point")
    assumptions = ["single storage failure per request (a failed operation has no effect on the store)",
                   "the fault / crash hits the request's own goroutine; background expiration workers run fault-free",
                   "root namespace; no identity entity/alias on the login"]
    trusted_base = ["Lean 4.33.0 kernel",
                    "model Obao/Model/Register.lean tied to internal/vault (request_handling.go, expiration.go, token_store.go, wrapping.go) "
                    "by streams 'register' and 'regauth'",
                    "harness/wb/vault/zz_verif_c06_test.go + zz_verif_common_test.go (overlaid, build tag verif), lib/*.py"]


CHECK = C06()
