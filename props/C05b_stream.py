"""Second stream of property C05 (lease tracking by the expiration manager).  NOT a property of its own: add
`Expiration()` to `C05.streams` and "C05b" to `C05.lean_modules` in props/C05.py:

    from props.C05b_stream import Expiration
    class C05(PropCheck):
        lean_modules = ["C05", "C05b"]
        streams = [CalcTTL(), Expiration()]
"""
from lib.runner import Stream


def _set(s):
    return set() if s in ("-", "", None) else set(x.rstrip("x") for x in s.split(","))


def _obs(impl):
    d = {}
    for seg in impl.split("!VIOL:")[0].split("|")[1:]:
        if "=" in seg:
            k, v = seg.split("=", 1)
            d[k] = v
    return d


class _TTLTol(str):
    """the model's answer to a renewal: a TTL capped by `issue + maximum` is counted from the REAL clock in the code and from
    the script's logical clock in the model; under load a case takes more than the 30 s the minute-rounding absorbs. The code
    may grant up to one minute LESS than the model (never more: that is the property, judged by verdict_predicate)."""
    def _split(self, x):
        head, _, rest = x.partition("|")
        if head.startswith("ok:") and head[3:].lstrip("-").isdigit():
            return int(head[3:]), rest
        return None, x

    def __eq__(self, other):
        if not isinstance(other, str):
            return NotImplemented
        a, ra = self._split(str(self))
        b, rb = self._split(str(other))
        if a is None or b is None:
            return str.__eq__(self, other)
        return ra == rb and a - 60 <= b <= a

    def __ne__(self, other):
        r = self.__eq__(other)
        return r if r is NotImplemented else not r

    __hash__ = str.__hash__


class Expiration(Stream):
    name = "expiration"
    driver = "expiration"
    harness = {"name": "c05bwb", "module": "root", "pkg": "./internal/vault",
               "files": {"internal/vault/zz_verif_common_test.go": "wb/vault/zz_verif_common_test.go",
                         "internal/vault/zz_verif_c05b_test.go": "wb/vault/zz_verif_c05b_test.go",
                         "internal/zzverif/vh/vh.go": "vh/vh.go"}}
    testname = "TestVerifC05b"
    timeout = 2400
    rule = ("seeded histories on a real Core + ExpirationManager: reg / tokcreate / rootcreate / renew / tokrenew (increments "
            "0 .. beyond every maximum) / revoke sync and lazy (= forced expiry through the timer and the revocation job) / "
            "tokrevoke (cascade) / age (time passing) / setfail (backend revoke fails transiently, always, unrecoverably) / "
            "freeze (lost timers) / restart (Stop+setupExpiration, or a new core on a snapshot); namespace histories: two sealable "
            "namespaces with leases, seal / unseal, and unseals whose lease restore is held in flight (restore shard lock) while "
            "leases of other namespaces are renewed / revoked; observed at quiescence: "
            "stored vs pending / irrevocable / nonexpiring sets per unsealed namespace, restoreLoaded marks, restore-mode counter, "
            "backend revocations and call counts; plus crash points of "
            "a sync renew / revoke / register (snapshot after every write, new core, stored vs tracked); non-trivial = the "
            "op succeeded; distinct = distinct op line")

    def nontrivial(self, op, impl):
        return impl.startswith("ok") or impl.startswith("untracked=")

    def norm_model(self, op, model):
        if op.startswith(("renew\t", "tokrenew\t")):
            return _TTLTol(model)
        return model

    def predicate(self, op, impl):
        base = Stream.predicate(self, op, impl)
        if base:
            return base
        if impl == "panic" or impl.startswith("err:restart") or impl.startswith("err:restore") or impl.startswith("err:stop") or impl.startswith("err:setup"):
            return {"what": "the real code panicked / did not restart: " + impl, "signature": "C05b:harness-observation-failed"}
        if op.startswith("crash\t"):
            o = dict(seg.split("=", 1) for seg in impl.split("!VIOL:")[0].split("|") if "=" in seg)
            if o.get("untracked") != "0":
                return {"what": "after a crash and restart a stored lease is not tracked", "signature": "C05b:crash-stored-not-tracked"}
            if o.get("ghost") != "0":
                return {"what": "after a crash and restart a tracked lease is not in storage", "signature": "C05b:crash-tracked-not-stored"}
            return None
        o = _obs(impl)
        if "st" not in o:
            return None
        # leases of sealed namespaces, and the one lease whose namespace restore the harness holds in flight, are
        # legitimately untracked; every other stored lease (= every lease of an unsealed namespace) must be tracked
        stored = _set(o["st"]) - _set(o.get("nsl")) - _set(o.get("held"))
        tracked = _set(o.get("pend")) | _set(o.get("irr")) | _set(o.get("non"))
        if stored - tracked:
            return {"what": "lease(s) %s of an unsealed namespace in storage but not tracked for expiry" % sorted(stored - tracked),
                    "signature": "C05b:stored-not-tracked"}
        if tracked - stored:
            return {"what": "lease(s) %s tracked but not in storage" % sorted(tracked - stored),
                    "signature": "C05b:tracked-not-stored"}
        if o.get("unk", "0") != "0":
            return {"what": "a lease the harness did not create appeared", "signature": "C05b:unknown-lease"}
        return None

    def verdict_predicate(self, op, impl, model, cov):
        """a renewal that the implementation grants for LONGER than the model's bound (issue time + the lesser of every
        applicable maximum, `C05b.renew_within_max` / `tokrenew_within_max`) is a lifetime past the bound: concrete"""
        f = op.split("\t")
        if f[0] not in ("renew", "tokrenew"):
            return None
        ri, rm = impl.split("|", 1)[0], model.split("|", 1)[0]
        if ri.startswith("ok:") and rm.startswith("ok:"):
            try:
                ti, tm = int(ri.split(":")[1]), int(rm.split(":")[1])
            except ValueError:
                return None
            if ti > tm:
                return {"what": "renewal of lease %s granted %d s where issue time + effective maximum allows %d s" % (f[1], ti, tm),
                        "signature": "C05b:renewal-beyond-bound"}
        return None

    def case_predicate(self, ops, impls):
        """renewals of leases the previous observation shows irrevocable / absent, or registered non-renewable, must be
        refused; a lazily revoked secret must end revoked at the backend or irrevocable (when the strategy is live)"""
        out = []
        irrevocable, stored, nonrenewable, expired, batch = set(), set(), set(), set(), set()
        ns_of = {}
        frozen = False
        for op, impl in zip(ops, impls):
            f = op.split("\t")
            res = impl.split("|", 1)[0]
            if f[0] in ("renew", "tokrenew") and res.startswith("ok"):
                if f[1] in irrevocable:
                    out.append({"what": "irrevocable lease %s was renewed" % f[1], "signature": "C05b:irrevocable-renewed", "op": op})
                elif f[1] not in stored:
                    out.append({"what": "lease %s absent from storage was renewed" % f[1], "signature": "C05b:absent-renewed", "op": op})
                elif f[1] in nonrenewable and f[1] in batch:
                    out.append({"what": "non-renewable secret lease %s, issued to a batch token, was renewed" % f[1],
                                "signature": "F64:batch-token-lease-nonrenewable-renewed", "op": op})
                elif f[1] in nonrenewable:
                    out.append({"what": "non-renewable lease %s was renewed" % f[1], "signature": "C05b:nonrenewable-renewed", "op": op})
                elif f[1] in expired:
                    out.append({"what": "expired lease %s was renewed" % f[1], "signature": "C05b:expired-renewed", "op": op})
            if f[0] == "reg" and res.startswith("ok:") and f[4] == "0":
                nonrenewable.add(res.split(":")[1])
            if f[0] == "batchreg" and res.startswith("ok:"):
                batch.add(res.split(":")[1])
                if f[3] == "0":
                    nonrenewable.add(res.split(":")[1])
            if f[0] == "nsreg" and res.startswith("ok:"):
                ns_of[res.split(":")[1]] = f[1]
            if f[0] == "nsdelete" and res == "ok":
                o2 = _obs(impl)
                mine = set(l for l, n in ns_of.items() if n == f[1] and l in stored)
                lost = sorted(mine - _set(o2.get("rev")))
                if lost:
                    out.append({"what": "namespace %s was deleted; its lease(s) %s were wiped from storage without being revoked at "
                                        "their backend" % (f[1], lost), "signature": "C05b:namespace-delete-drops-leases-unrevoked", "op": op})
            if f[0] == "rolecreate" and res.startswith("ok:") and f[4] == "0":
                nonrenewable.add(res.split(":")[1])
            if f[0] == "tokcreate" and res.startswith("ok:") and f[3] == "0":
                nonrenewable.add(res.split(":")[1])
            if f[0] == "rootcreate" and res.startswith("ok:"):
                nonrenewable.add(res.split(":")[1])
            if f[0] == "freeze":
                frozen = f[1] == "1"
            if f[0] == "restart":
                frozen = False
            if f[0] == "revoke" and f[2] == "0" and frozen and res == "ok" and f[1] in stored:
                expired.add(f[1])     # expiry forced to "now" while the timers are lost: the lease stays, expired
            o = _obs(impl)
            if "st" in o:
                if ((f[0] == "revoke" and f[2] == "0") or f[0] == "revokeloadfault") and not frozen and res == "ok" and f[1] in stored and f[1] not in _set(o.get("non")):
                    # forced expiry: at quiescence the lease is gone or irrevocable
                    st_now = {x.rstrip("x"): x.endswith("x") for x in ([] if o["st"] == "-" else o["st"].split(","))}
                    if f[1] in st_now and not st_now[f[1]]:
                        out.append({"what": "lease %s was expired but is neither revoked nor irrevocable at quiescence" % f[1],
                                    "signature": "C05b:expired-not-resolved", "op": op})
                stored = _set(o["st"])
                irrevocable = set(x[:-1] for x in ([] if o["st"] == "-" else o["st"].split(",")) if x.endswith("x"))
        return out
