import json, os, re
from lib import core
from lib.runner import PropCheck, Stream

F5_SIG = "F5:crl-rebuild-fault-retry-missing-serial"
F5B_SIG = "F16:crash-after-record-write-retry-missing-serial"
F13_SIG = "F17:crl-number-reused-after-unpersisted-counter"
CONC_SIG = "served-crl-lacks-serial-after-concurrent-rebuild"
TOK = re.compile(r"^([CD])(\d+):(\d+)\[([^\]]*)\](.*)$")


def split_trace(s):
    return [] if s in ("", "-") else s.split(" ")


def trace_of(op, impl):
    """(tokens of the effective writes of this operation as far as the implementation reported them, cut kind)"""
    f = op.split("\t")
    if f[0] == "conc":
        # concurrent case: the schedule field lists the effective writes of both threads in global order
        return [e.split(":", 1)[1] for e in split_trace(f[-1]) if ":" in e and not e.endswith(":L")], "conc"
    if "fault" in f[1:]:
        i = f.index("fault")
        if " w=" in impl:                       # fault not hit / swallowed: the request completed
            return split_trace(impl.split(" w=", 1)[1]), "fault-completed"
        return split_trace(f[i + 2]), "fault"
    if "crash" in f[1:]:
        i = f.index("crash")
        return split_trace(f[i + 1]), "crash"
    if " w=" in impl:
        return split_trace(impl.split(" w=", 1)[1]), ""
    return [], ""


class RevokeStream(Stream):
    name = "pkirevoke"
    driver = "pkirevoke"
    harness = {"name": "pkic16", "module": "root", "pkg": "./internal/builtin/logical/pki",
               "files": {"internal/builtin/logical/pki/zz_verif_c16_test.go": "wb/pki/zz_verif_c16_test.go",
                         "internal/builtin/logical/pki/zz_verif_c16s_test.go": "wb/pki/zz_verif_c16s_test.go",
                         "internal/zzverif/vh/vh.go": "vh/vh.go"}}
    testname = "TestVerifC16"
    timeout = 2400
    rule = ("real pki backend on a recording/faulting storage; (1) random histories of 5-30 operations over 1-4 "
            "EC P-256 issuers: issue (1h / 4s / 1s lifetimes), externally signed already-expired certificates, revoke by "
            "serial or by certificate, repeated revoke, crl/rotate, tidy (cert store / revoked certs / issuer "
            "associations, safety_buffer 1s), config/crl (auto_rebuild, disable, allow_expired_cert_revocation), issuer "
            "add / delete, backend restart, clock ticks (thorough); (2) for a revoke or rotate after a random prefix: "
            "every single storage-operation failure followed by a retry, a rotate and a restart; (3) a storage death "
            "after every prefix of its writes followed by a restart and a retry; (4) concurrency: two goroutines on one "
            "backend, a request that rebuilds the CRLs outside revokeStorageLock (issuer delete / generate / import, "
            "config/crl, tidy) against a revoke, the storage wrapper as scheduler (the other request parked at its first "
            "storage operation and at every operation from the start of its CRL build to its end; the revoke runs until it "
            "finishes or blocks), the observed global order of writes and revoked/ listings replayed on the micro-step "
            "model (trace validation).  After each operation every issuer's "
            "CRL is fetched, parsed and signature-checked, cert/<serial> and OCSP are queried for every certificate; "
            "every CRL written to storage is parsed as well.  non-trivial = operation did not end in an error class; "
            "distinct = distinct operation line (ordinals, classes, cut position and observed write prefix)")

    def norm_model(self, op, model):
        # a fault the code swallows (e.g. the read of the legacy certificate path) followed by a request that fails for
        # its OWN reason (serial not found): the harness cannot tell whose error it is and writes no ` w=` field for an
        # error under a fault; the writes are in the op line's trace field either way (thorough sweep, seed 3)
        if "\tfault\t" in op and model.startswith("err:") and " w=" in model:
            return model.split(" w=", 1)[0]
        return model

    def nontrivial(self, op, impl):
        return not impl.startswith("err") and impl != "bad-op" and not op.startswith("obs")

    def case_predicate(self, ops, impls):
        out = []

        def viol(what, sig, at):
            out.append({"what": what, "signature": sig, "at_op": at})

        certs = {}          # ordinal -> (issuer, class)
        live = set()
        auto = disable = False
        success = {}        # ordinal -> first stamp reported by a successful revoke
        wrote_rec_then_failed = set()   # ordinals whose revoked/ entry was written by a revoke that then failed
        wrote_rec_then_crashed = set()  # ... by a revoke cut by a crash before the issuer's CRL was written
        lastnum = {}        # issuer -> last CRL number written
        unpersisted = False  # some cut left a CRL written after the last persisted counters
        last_revoke_ok = None
        ticks = 0
        for idx, (op, impl) in enumerate(zip(ops, impls)):
            f = op.split("\t")
            kind = f[0]
            if "!badsig" in impl or "!wrong-issuer" in impl or "!badsig" in op:
                viol("a CRL with an invalid signature / wrong issuer was written or served", "crl-bad-signature", idx)
            if kind == "obs":
                if not impl.startswith("crl "):
                    continue
                parts = impl.split(" | ")
                served = {}
                for t in parts[0].split(" ")[1:]:
                    m = re.match(r"^i(\d+)=(\d+)\[([^\]]*)\]", t)
                    if m:
                        served[int(m.group(1))] = set(x for x in m.group(3).split(",") if x)
                st = {}
                for t in (parts[2].split(" ") if len(parts) > 2 and parts[2] else []):
                    m = re.match(r"^#(\d+)=([A-Z]-?\d*)/(\w)$", t)
                    if m:
                        st[int(m.group(1))] = (m.group(2), m.group(3))
                for k, stamp in success.items():
                    iss, cls = certs.get(k, (0, "?"))
                    if cls != "L" or k not in st:
                        continue
                    s, o = st[k]
                    if not s.startswith("R"):
                        viol("cert/<serial> does not report a successfully revoked, unexpired certificate as revoked (#%d: %s)" % (k, s),
                             "status-not-revoked", idx)
                    elif s != "R%d" % stamp:
                        viol("revocation time of #%d changed (%s, first reported t%d)" % (k, s, stamp), "revocation-entry-altered", idx)
                    if iss in live and o != "r":
                        viol("OCSP does not report a successfully revoked, unexpired certificate as revoked (#%d: %s)" % (k, o),
                             "ocsp-not-revoked", idx)
                if last_revoke_ok is not None:
                    k, had_record_write, was_conc = last_revoke_ok
                    last_revoke_ok = None
                    iss, cls = certs.get(k, (0, "?"))
                    if not auto and not disable and iss in live and cls == "L" and ("#%d" % k) not in served.get(iss, set()):
                        if was_conc:
                            viol("revoke of #%d, running concurrently with another request that rebuilt the CRLs, returned success; "
                                 "once both had returned the served CRL of issuer %d does not list the serial (auto_rebuild off)" % (k, iss),
                                 CONC_SIG, idx)
                        elif not had_record_write and k in wrote_rec_then_failed:
                            viol("revoke of #%d returned success on a retry after the CRL rebuild of the first attempt failed; "
                                 "the served CRL of issuer %d does not list the serial (auto_rebuild off)" % (k, iss), F5_SIG, idx)
                        elif not had_record_write and k in wrote_rec_then_crashed:
                            viol("revoke of #%d returned success after a crash cut the first attempt between the revocation record "
                                 "and the CRL of issuer %d; the served CRL does not list the serial (auto_rebuild off)" % (k, iss), F5B_SIG, idx)
                        else:
                            viol("served CRL of issuer %d lacks #%d right after revoke returned success (auto_rebuild off)" % (iss, k),
                                 "served-crl-lacks-serial", idx)
                continue
            toks, cut = trace_of(op, impl)
            conc_r1 = None
            if kind == "conc":
                bars = [i for i, x in enumerate(f) if x == "|"]
                if len(bars) != 2 or not impl.startswith("r1="):
                    continue
                conc_r1 = f[1:bars[0]]
                f = f[bars[0] + 1:bars[1]]          # the revoke: ["revoke", k, mode]
                kind = "revoke"
                r1res, impl = impl[3:].split(" r2=", 1)
                if conc_r1[0] in ("addissuer", "importissuer") and r1res.startswith("ok:i"):
                    live.add(int(r1res[4:]))
                elif conc_r1[0] == "delissuer" and r1res.startswith("ok"):
                    live.discard(int(conc_r1[1]))
            # configuration as actually persisted
            for t in toks:
                m = re.match(r"^G:a(\d)d(\d)x(\d)$", t)
                if m:
                    auto, disable = m.group(1) == "1", m.group(2) == "1"
            # every CRL written: numbers strictly increase per issuer; complete CRLs list every revoked unexpired serial
            for t in toks:
                m = TOK.match(t)
                if not m:
                    continue
                cd, iss, num, lst = m.group(1), int(m.group(2)), int(m.group(3)), set(x for x in m.group(4).split(",") if x)
                if iss in lastnum and num <= lastnum[iss]:
                    viol("CRL number of issuer %d did not increase: %d written after %d" % (iss, num, lastnum[iss]),
                         F13_SIG if unpersisted else "crl-number-not-increasing", idx)
                lastnum[iss] = max(num, lastnum.get(iss, 0))
                if cd == "C" and not disable:
                    for k, _ in success.items():
                        ki, cls = certs.get(k, (0, "?"))
                        if cls == "L" and ki == iss and ("#%d" % k) not in lst:
                            viol("complete CRL %d of issuer %d built after the successful revocation of #%d does not list it" % (num, iss, k),
                                 "crl-built-without-revoked-serial", idx)
            if cut in ("fault", "crash"):
                seen_after_k = False
                for t in toks:
                    if t.startswith("K["):
                        seen_after_k = False
                    elif TOK.match(t):
                        seen_after_k = True
                unpersisted = unpersisted or seen_after_k
            # revocation entries of other certificates
            target = int(f[1]) if kind == "revoke" and len(f) > 1 and f[1].isdigit() else None
            for t in toks:
                m = re.match(r"^([Rr])#(\d+)", t)
                if not m:
                    continue
                k = int(m.group(2))
                if m.group(1) == "r":
                    if kind != "tidy" and not (conc_r1 and conc_r1[0] == "tidy"):
                        viol("%s removed the revocation entry of #%d" % (kind, k), "revocation-entry-removed", idx)
                    elif certs.get(k, (0, "?"))[1] == "L":
                        viol("tidy removed the revocation entry of the unexpired certificate #%d" % k, "tidy-removed-unexpired", idx)
                elif kind == "revoke" and k != target and not (conc_r1 and conc_r1[0] == "tidy"):
                    viol("revoke of #%s rewrote the revocation entry of #%d" % (target, k), "revocation-entry-altered", idx)
            if kind in ("addissuer", "importissuer") and impl.startswith("ok:i"):
                live.add(int(impl.split(" ")[0][4:]))
            elif kind == "delissuer" and impl.startswith("ok"):
                live.discard(int(f[1]))
            elif kind in ("issue", "craft") and impl.startswith("ok:#"):
                # class L (issued, 1h) and V (externally signed, 1h) stay unexpired for the whole case
                certs[int(impl.split(" ")[0][4:])] = (int(f[1]), "L" if f[2] == "V" else f[2])
            elif kind == "tick":
                ticks += 1
                # 4 s certificates are only treated as unexpired before the first tick
                certs = {k: (i, "Mx" if c == "M" else c) for k, (i, c) in certs.items()}
            elif kind == "revoke" and target is not None:
                has_rec = any(t.startswith("R#%d:" % target) for t in toks)
                if impl.startswith("ok:revoked:t"):
                    stamp = int(impl.split(" ")[0].split(":t")[1])
                    if target in success and success[target] != stamp and certs.get(target, (0, "?"))[1] == "L":
                        viol("repeated revoke of #%d reported another revocation time (t%d, first t%d)" % (target, stamp, success[target]),
                             "revoke-not-idempotent", idx)
                    success.setdefault(target, stamp)
                    last_revoke_ok = (target, has_rec, conc_r1 is not None)
                elif impl.startswith("err") and has_rec:
                    wrote_rec_then_failed.add(target)
                elif impl == "crashed" and has_rec:
                    wrote_rec_then_crashed.add(target)
        return out


class ScenarioStream(Stream):
    name = "pkiscen"
    driver = "pkiscen"
    harness = {"name": "pkic16", "module": "root", "pkg": "./internal/builtin/logical/pki",
               "files": {"internal/builtin/logical/pki/zz_verif_c16_test.go": "wb/pki/zz_verif_c16_test.go",
                         "internal/builtin/logical/pki/zz_verif_c16s_test.go": "wb/pki/zz_verif_c16s_test.go",
                         "internal/zzverif/vh/vh.go": "vh/vh.go"}}
    testname = "TestVerifC16Scenarios"
    timeout = 900
    rule = ("directed scenarios at predicate level on the real pki backend: issuer/<ref>/revoke of an intermediate signed in the "
            "mount with a storage fault at EVERY write position, restart and retry; config/crl auto_rebuild / disable switched off "
            "with a fault at every write position and a retry; two issuers with the same key and subject when the one a revoked "
            "leaf is associated with loses crl-signing; a CA certificate revoked by serial and then imported as an issuer; "
            "LIST certs/revoked paged with limit 1/2/5; afterwards status API, OCSP and the issuer's complete CRL are asked; "
            "the expected answer comes from the write-level model Obao.PKIReport (theorems issuer_revoke_reported_after_retry, "
            "config_crl_current_after_retry); non-trivial = every line")

    def nontrivial(self, op, impl):
        return True


class C16(PropCheck):
    pid = "C16"
    streams = [RevokeStream(), ScenarioStream()]
    search_tier = "quick"
    search_seeds = 3
    level_text = ("Lean theorems over a micro-step model of pki revocation and CRL building (revoked_everywhere, "
                  "crl_number_increasing, revoke_idempotent, revoke_preserves_others, served_crl_lists_serial, revoke_restart "
                  "for every crash prefix, revoke_fault_retry for every fault position / crash prefix followed by a retry "
                  "(findings F5/F16, repaired by e3ecbb3), served_crl_lists_serial_concurrent for every schedule of a revoke against "
                  "one other rebuilding request (+ _cex for a coalescing builder), crl_number_increasing over every history "
                  "including every fault / crash cut (finding F17, repaired by persisting the CRL number first)); "
                  "the model is tied to the Go code "
                  "by a differential stream of random histories, all single-fault positions and all crash prefixes of "
                  "revoke / rotate on every run, and the property's predicate is evaluated directly on every CRL the "
                  "implementation writes or serves and on every status / OCSP answer")
    level_note = ("trusted: Lean kernel; hand-written model Obao/Model/PKIRevoke.lean and its differential tie; X.509 / CRL "
                  "signatures are checked by Go's crypto/x509 in the harness, not modelled; delta WAL, unified CRLs and "
                  "issuer revocation are outside the model; wall-clock expiry is a model input (clock ticks)")
    technique = "Lean 4 theorems (induction over histories and write prefixes, invariants) + trace-validated differential correspondence"
    assumptions = ["every issuer has its own key and subject (one CRL per issuer)",
                   "enable_delta stays off; no cross-cluster (unified) revocation",
                   "the wall clock advances by less than one second between the operations of a case unless the case ticks"]
    trusted_base = ["Lean 4.33.0 kernel",
                    "model Obao/Model/PKIRevoke.lean tied to internal/builtin/logical/pki by stream 'pkirevoke'",
                    "Go crypto/x509 + x/crypto/ocsp parsing and signature checks in harness/wb/pki", "lib/*.py"]


    def extra(self, ctx):
        p = os.path.join(core.WORK, "trace-C16-pkirevoke.tsv.stats")
        if not os.path.exists(p):
            return None
        try:
            st = json.load(open(p))
        except ValueError:
            return None
        ops, _ = core.read_trace(os.path.join(core.WORK, "trace-C16-pkirevoke.tsv"))
        st["fault_positions"] = sum(1 for o in ops if "\tfault\t" in o)
        st["crash_prefixes"] = sum(1 for o in ops if "\tcrash\t" in o)
        st["rule"] = "harness case statistics (cases dropped because the wall clock disagreed with the model clock are not compared)"
        return {"stats": {"pkirevoke-cases": st}}


CHECK = C16()
