from lib.runner import PropCheck, Stream

HARNESS = {"name": "kv", "module": "root", "pkg": "./internal/builtin/logical/kv",
           "files": {"internal/builtin/logical/kv/zz_verif_c14_test.go": "wb/kv/zz_verif_c14_test.go",
                     "internal/zzverif/vh/vh.go": "vh/vh.go"}}


def _ok_version(res):
    """version number of a successful write/patch answer `ok:<v>:<del>[:warn]...`, else None"""
    if not res.startswith("ok:"):
        return None
    try:
        return int(res.split(":")[1])
    except (IndexError, ValueError):
        return None


class KVStream(Stream):
    driver = "kv2"
    harness = HARNESS

    def nontrivial(self, op, impl):
        return not impl.startswith("err") and impl not in ("bad-op", "nil", "ok")

    def case_predicate(self, ops, impls):
        """the property evaluated directly on the implementation's answers, per path and per incarnation of a key:
        successful writes are numbered consecutively (versions_consecutive); a cas write succeeds iff cas = current
        version (cas_exact); a read of version v returns the data written as v (read_version_exact; writes only: a
        patch's data depends on the merge); the metadata lists exactly the versions floor..current where floor only
        moves at a successful write, to current - max + 1 (prune_exact)"""
        out = []
        cur = {}          # path -> current version as implied by the answers so far
        written = {}      # (path, v) -> data
        floor = {}        # path -> lowest version still listed
        keymax = {}       # path -> key max_versions
        cfgmax = 0
        lastmeta = {}     # path -> {version: flags} at the previous metadata read
        named = {}        # path -> version numbers named by the requests since then
        wild = set()      # paths whose key was deleted since then
        floor_unknown = set()   # paths whose window changed inside a concurrent phase (listing not predicted)

        def fail(what, sig, o, a):
            out.append({"what": what, "signature": sig, "op": o, "impl": a})

        for o, a in zip(ops, impls):
            f = o.split("\t")
            k = f[0]
            res = a.split("!VIOL:", 1)[0]
            if k in ("write", "patch", "writef", "patchf"):
                p, cas = f[1], f[2]
                v = _ok_version(res)
                c = cur.get(p, 0)
                if v is not None:
                    if v != c + 1:
                        fail("successful %s got version %d, the previous successful write had %d" % (k, v, c),
                             "seq-version-not-consecutive", o, a)
                    if cas not in ("-", "bad") and int(cas) != c:
                        fail("%s with cas=%s succeeded while the current version was %d" % (k, cas, c),
                             "seq-cas-accepted-stale", o, a)
                    cur[p] = v
                    named.setdefault(p, set()).add(v)
                    mx = max(keymax.get(p, 0), cfgmax) or 10
                    floor[p] = max(floor.get(p, 1), v - mx + 1, 1)
                    if k in ("write", "writef"):
                        written[(p, v)] = f[3]
                    else:
                        written.pop((p, v), None)
                elif res.startswith("err:cas-mismatch") and cas not in ("-", "bad") and int(cas) == c:
                    fail("%s with cas=%s (the current version) was refused" % (k, cas), "seq-cas-refused-current", o, a)
            elif k == "conc":
                # a concurrent phase: f[1] = thread requests, f[3] = their answers.  Successful writes must carry the next
                # numbers; afterwards the implied current version, the written data and the window floor are carried on,
                # so that the follow-up requests and observations are checked like any sequential history
                tops = [t.split(";") for t in f[1].split("|")]
                tres = f[3].split("|")
                acked = {}
                for t, r in zip(tops, tres):
                    if t[0] in ("write", "patch") and _ok_version(r) is not None:
                        acked.setdefault(t[1], []).append((_ok_version(r), t))
                    if t[0] in ("metawrite", "metapatch") and not r.startswith("err") and r != "notfound" and t[2] != "-":
                        keymax[t[1]] = int(t[2]) % (1 << 32)
                        floor_unknown.add(t[1])
                    if t[0] == "metadelete":
                        floor_unknown.add(t[1])
                    if len(t) > 1:
                        wild.add(t[1])
                for p, lst in acked.items():
                    c = cur.get(p, 0)
                    vs = sorted(v for v, _ in lst)
                    if vs != list(range(c + 1, c + 1 + len(vs))):
                        fail("concurrent successful writes on %s were answered %s, current version before was %d" % (p, vs, c),
                             "seq-version-not-consecutive", o, a)
                    for v, t in sorted(lst, key=lambda x: x[0]):
                        mx = max(keymax.get(p, 0), cfgmax) or 10
                        floor[p] = max(floor.get(p, 1), v - mx + 1, 1)
                        if t[0] == "write":
                            written[(p, v)] = t[3]
                        else:
                            written.pop((p, v), None)
                    cur[p] = max([c] + vs)
            elif k in ("deletev", "undelete", "destroy") and f[2] != "-":
                named.setdefault(f[1], set()).update(int(x) for x in f[2].split(","))
            elif k == "delete":
                named.setdefault(f[1], set()).add(cur.get(f[1], 0))
            elif k == "metadelete":
                p = f[1]
                wild.add(p)
                cur[p] = 0
                floor.pop(p, None)
                keymax.pop(p, None)
                for key in [x for x in written if x[0] == p]:
                    del written[key]
            elif k in ("metawrite", "metapatch") and not res.startswith("err") and res != "notfound":
                if f[2] != "-":
                    keymax[f[1]] = int(f[2]) % (1 << 32)
            elif k == "confwrite" and not res.startswith("err"):
                if f[1] != "-":
                    cfgmax = int(f[1]) % (1 << 32)
            elif k == "metaread" and res.startswith("meta:"):
                p = f[1]
                parts = res.split(":")
                listed = [] if parts[7] == "-" else [int(x.split("/")[0]) for x in parts[7].split(",")]
                flags = {} if parts[7] == "-" else {int(x.split("/")[0]): x.split("/", 1)[1] for x in parts[7].split(",")}
                resync = p in floor_unknown
                if resync:
                    # the window moved inside a concurrent phase: take the floor from this listing, check again from here on
                    floor[p] = min(listed) if listed else cur.get(p, 0) + 1
                    keymax[p] = int(parts[3].split("=")[1])
                    floor_unknown.discard(p)
                if p in lastmeta and p not in wild:
                    for x in sorted(set(flags) | set(lastmeta[p])):
                        if flags.get(x) != lastmeta[p].get(x) and x not in named.get(p, ()) and \
                                not (x not in flags and x < floor.get(p, 1)):
                            fail("version %d of %s changed from %s to %s although no request since the previous metadata "
                                 "read named it" % (x, p, lastmeta[p].get(x), flags.get(x)), "seq-ops-not-local", o, a)
                lastmeta[p] = flags
                named[p] = set()
                wild.discard(p)
                c = cur.get(p, 0)
                want = list(range(floor.get(p, 1), c + 1))
                if parts[1] != "cur=%d" % c:
                    fail("metadata reports %s, the successful writes imply %d" % (parts[1], c), "seq-current-wrong", o, a)
                elif listed != want and not resync:
                    fail("metadata lists versions %s, the window arithmetic keeps exactly %s" % (listed, want),
                         "seq-window-wrong", o, a)
            elif k == "read" and res.startswith("ok:"):
                p = f[1]
                parts = res.split(":")
                v, data = int(parts[1]), parts[2]
                want = written.get((p, v))
                if want is not None and data != want:
                    fail("read of version %d of %s returned %s, written was %s" % (v, p, data, want),
                         "seq-read-wrong-data", o, a)
                if int(f[2]) > 0 and v != int(f[2]):
                    fail("read ?version=%s answered with version %d" % (f[2], v), "seq-read-wrong-version", o, a)
            elif k == "read" and res == "err:missing-blob":
                fail("a listed, live version has no data (read: could not find version data)", "seq-read-missing-blob", o, a)
        return out

class Seq(KVStream):
    name = "kv2-seq"
    testname = "TestVerifC14Seq"
    rule = ("sequential histories (15-75 requests, then every observation) over 1-3 secret paths on a fresh versioned "
            "backend per case, alternating transactional / non-transactional in-memory storage: data write and patch "
            "(cas absent / current / off by one / 0 / negative / 2^32 / unparsable), read (current and ?version=), "
            "delete latest, delete/undelete/destroy version lists (incl. absent, 0, negative, repeated numbers), metadata "
            "write (max_versions incl. 0 and -1, cas_required, delete_version_after 0 / ten years), metadata read/delete, "
            "config write (max_versions, cas_required, delete_version_after 0 / ten years / negative) and read; a "
            "small-window profile makes pruning frequent; every answer canonicalised (version, data, deletion class, "
            "destroyed flag, error class) and compared with the model; non-trivial = answer carries a version, data "
            "or metadata; distinct = distinct op line")

class Fault(KVStream):
    name = "kv2-fault"
    testname = "TestVerifC14Fault"
    rule = ("scenarios = set-up history + one target write/patch (engineered: window that must move by 1-7 versions, with "
            "and without a destroyed version stopping the clean-up loop, cas present/absent; and random histories), on "
            "transactional and non-transactional storage; the target is first run fault-free to count its storage "
            "operations (BeginTx, Get, Put, Delete, Commit), then re-run from a fresh backend once per fault position "
            "0..n (n = past the end); before and after it every observation (metadata + read of every version of every "
            "path) is taken; predicate failed_write_no_change: an erroring target leaves all observations unchanged, a "
            "target that reports success under a fault ends in the fault-free state; afterwards a fault-free write and "
            "all observations again; model compared on every line incl. whether the fault fired")


class Conc(KVStream):
    name = "kv2-conc"
    testname = "TestVerifC14Conc"
    timeout = 3000
    rule = ("2-3 writer goroutines presenting the same cas (85% the current version) on one path + a data reader, "
            "optionally a metadata reader and one other request (delete, patch, destroy, undelete, delete-versions, "
            "metadata write, write on another path); every storage operation of every goroutine is parked at a gate "
            "and released one at a time by a seeded scheduler (start of a goroutine is a scheduler action; a goroutine "
            "not reaching a gate within 30 ms is blocked on the key lock); predicate: exactly one cas writer succeeds "
            "when cas = current version, none when stale, successful writes numbered consecutively; the recorded "
            "answers + final observations + real-time precedence pairs are given to the driver, which searches a "
            "linearization under the sequential model ('lin'); 45% of the schedules also carry a metadata PATCH or PUT thread "
            "on the contended key; after the phase: the current version must equal the number of acknowledged writes, every "
            "acknowledged write's version must read its own data, then follow-up writes (the same cas again, a plain write) "
            "and all observations, checked by the per-case predicate (consecutive numbers, cas exactness, read v = data of v)")

    def predicate(self, op, impl):
        r = Stream.predicate(self, op, impl)
        if r:
            return r
        if op.startswith("conc\t") and impl.split("!VIOL:", 1)[0] != "lin":
            return {"what": "harness did not record the concurrent history", "signature": "conc-harness"}
        return None

    def verdict_predicate(self, op, impl, model, cov):
        f0 = op.split("\t")
        if len(f0) > 1 and f0[0] not in ("conc", "mode", "confwrite", "confread") and model == "err:badpath" and not impl.startswith("err:badpath"):
            return {"what": "request %s under the name %r, which is not in cleaned form (an alias of secret %r: shared metadata, "
                            "separate version data), was served: %s" % (f0[0], f0[1], "/".join(x for x in f0[1].split("/") if x), impl[:120]),
                    "signature": "noncanonical-secret-name-served"}
        # the `conc` line carries the answers the real code gave to concurrent requests + what it left behind; the driver
        # searches an order of those requests under which the SEQUENTIAL register specification gives every request
        # the answer it got.  When the sequential stream of this very run agreed with the code on every request, the
        # specification is the code's sequential behaviour, so "no such order" is the property (linearizable versioned
        # register) failing on that recorded schedule.
        if op.startswith("conc\t") and model == "not-linearizable" and impl.split("!VIOL:", 1)[0] == "lin":
            seq = cov.get("kv2-seq")
            if seq and seq["mismatches"] == 0 and seq["evaluations"] > 1000:
                f = op.split("\t")
                return {"what": "concurrent history not linearizable: requests %s got answers %s (schedule: %s); no sequential "
                                "order of them under the versioned-register specification gives these answers and the state "
                                "observed afterwards" % (f[1], f[3], f[6] if len(f) > 6 else "-"),
                        "signature": "not-linearizable"}
        return None


class ConcDirected(Conc):
    name = "kv2-conc-directed"
    testname = "TestVerifC14ConcDirected"
    rule = ("directed schedules on one key with two versions, transactional and non-transactional storage: a holder thread "
            "(metadata PATCH max_versions / metadata PATCH custom_metadata with metadata_cas / metadata PUT) is allowed to "
            "perform exactly j of its storage operations (j = 0 .. all) and is then kept parked while a runner thread (cas "
            "write, plain write, delete latest, destroy, metadata PUT, data patch) runs to completion unless it blocks on the "
            "key lock; then both finish; and the mirror image (the runner parked after j of its operations, holding the key "
            "lock, while the metadata handler runs as far as it can); same predicates, linearization search, follow-up requests and observations as kv2-conc")


class Cold(Stream):
    name = "kv2-cold"
    driver = "kv2cold"
    harness = HARNESS
    testname = "TestVerifC14Cold"
    rule = ("the first requests on a fresh mount while the backend's caches (config, key encryptor, salt) are empty, on "
            "transactional and non-transactional storage: (a) config write (5 argument shapes) with the k-th storage "
            "operation failing, k = 0..5, config cache cold and warm, then the config the backend reports, the durable "
            "config (second backend instance on the same storage = restart) and a write without cas; (b) the first data "
            "write with the k-th storage operation failing, k = 0..10, then a fault-free write, a read and a read after a "
            "restart; predicate: an erroring request leaves the applied config equal to the durable one, and data written "
            "successfully stays readable after a restart; non-trivial = the fault fired")

    def nontrivial(self, op, impl):
        return ":fired" in impl


class C14(PropCheck):
    pid = "C14"
    streams = [Seq(), Fault(), Conc(), ConcDirected(), Cold()]
    assumptions = [
        "fewer than 2^32 versions per key (the uint32 truncation inside AddVersion is not modelled); cas and version "
        "numbers of requests within int64",
        "delete_version_after only 0 or far in the future; a deletion time, once set by a delete, is in the past for "
        "every later request (clock moves forward between requests)",
        "per-key locks are ideal mutual exclusion (the 256 lock stripes only add exclusion); Go runtime and sync "
        "primitives trusted; goroutine scheduling below storage-operation granularity not explored",
        "a single storage fault = one failed storage operation (BeginTx/Get/Put/Delete/Commit) per request",
        "secret data restricted to flat JSON objects with string values (merge patch modelled for those)",
    ]
    level_text = ("Lean theorems over an executable model of the versioned KV engine (key metadata + version blobs, "
                  "AddVersion window arithmetic, cleanupOldVersions, cas validation, delete/undelete/destroy, metadata and "
                  "config writes, write/patch at storage-operation granularity with a fault knob, per-key lock schedule "
                  "model): versions_consecutive, cas_exact, read_version_exact, ops_local, prune_exact, "
                  "failed_write_no_change (every fault position), failed_config_write_no_change (mount config, every fault "
                  "position, cold and warm cache; full since the repair of F28), cas_one_winner and kv_linearizable (every schedule, any "
                  "number of threads); the model is tied to the Go code by three differential streams on every run "
                  "(sequential histories, every single-fault position of write/patch incl. the exact storage-operation "
                  "count, gated concurrent schedules checked for linearizability) and the property predicates are "
                  "evaluated directly on the implementation's answers")
    level_note = ("trusted: Lean kernel; the hand-written model Obao/Model/KV2.lean and its differential tie; ideal locks; "
                  "in-memory storage (sdk/physical/inmem) as the storage under test; see assumptions")
    technique = ("Lean 4 theorems (invariants over all histories with faults, bisimulation for unobservable blobs, "
                 "schedule induction for the lock model) + differential correspondence incl. fault injection and a "
                 "gated scheduler")
    trusted_base = [
        "Lean 4.33.0 kernel",
        "hand-written model Obao/Model/KV2.lean tied to internal/builtin/logical/kv by streams kv2-seq, kv2-fault, kv2-conc",
        "Go harness harness/wb/kv (overlaid, build tag verif), lean/Driver/KV2.lean (parsing, linearization search), lib/*.py",
    ]


CHECK = C14()
