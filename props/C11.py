from lib import core
from lib.runner import PropCheck, Stream


def _unhex(h):
    return "" if h == "-" else bytes.fromhex(h).decode("utf-8", "replace")


def _plain_leaves(field):
    """(innermost key, text) of every string leaf written `s<hex>` (i.e. NOT an HMAC) in a token list"""
    if field == "nil":
        return []
    toks = field.split(",")
    out = []
    pos = 0

    def val(key):
        nonlocal pos
        t = toks[pos]; pos += 1
        c = t[0]
        if c == "s":
            out.append((key, _unhex(t[1:])))
        elif c == "a":
            for _ in range(int(t[1:])):
                val(key)
        elif c == "o":
            for _ in range(int(t[1:])):
                k = _unhex(toks[pos][1:]); pos += 1
                val(k)
    val(None)
    return out


def _keys(f):
    return [] if f == "none" else [_unhex(h) for h in f.split(",")]


class HashWalk(Stream):
    name = "hashwalk"
    driver = "hashwalk"
    harness = {"name": "c11bb", "module": "root", "pkg": "./internal/zzverif/c11",
               "files": {"internal/zzverif/c11/c11_test.go": "bb/c11/c11_test.go", "internal/zzverif/vh/vh.go": "vh/vh.go"}}
    testname = "TestVerifC11Hash"
    rule = ("(a) time.Time.UnmarshalText on RFC3339 timestamps, a lattice over every range check and one-byte mutations; "
            "(b) audit.AuditFormatter.FormatRequest/FormatResponse + JSONFormatWriter with a real salt (every 8th case through "
            "the real file audit device): generated data trees (depth <= 6, mixed scalars, empty maps/lists, typed Go "
            "variants []string/map[string]string/struct/time.Time/json.Number/[]byte raw body), secret canaries at random "
            "leaves, random non-HMAC key lists, list elision, auth/wrap blocks; every hmac-sha256 value mapped back to "
            "its pre-image by an independently recomputed HMAC; non-trivial = an entry was produced (or the string is "
            "time shaped); distinct = distinct op line")

    def nontrivial(self, op, impl):
        if op.startswith("time\t"):
            return impl == "1"
        return not impl.startswith("err") and impl != "panic"

    def predicate(self, op, impl):
        base = Stream.predicate(self, op, impl)
        if base:
            return base
        f = op.split("\t")
        if f[0] not in ("req", "resp") or impl.startswith("err") or impl == "panic":
            return None
        r = impl.split("!VIOL:", 1)[0].split("|")
        hm = f[1] == "1"
        if f[0] == "req":
            ign, rign = _keys(f[2]), []
        else:
            ign, rign = _keys(f[3]), _keys(f[9])
        # tokens: never in clear
        toks = [("auth.client_token", r[0]), ("request.client_token", r[2])]
        accs = [("auth.accessor", r[1]), ("request.client_token_accessor", r[3])]
        datas = [(r[4], ign)]
        if f[0] == "resp":
            if r[5] != "nil":
                t, a = r[5].split(",")
                toks.append(("response.auth.client_token", t)); accs.append(("response.auth.accessor", a))
            if r[7] != "nil":
                t, a, w = r[7].split(",")
                toks.append(("response.wrap_info.token", t))
                accs += [("response.wrap_info.accessor", a), ("response.wrap_info.wrapped_accessor", w)]
            datas.append((r[6], rign))
        for name, v in toks:
            if v[0] == "s" and v != "s-":
                return {"what": "plaintext %s in audit entry" % name, "signature": "plain-token:" + name}
        if hm:
            for name, v in accs:
                if v[0] == "s" and v != "s-":
                    return {"what": "plaintext %s in audit entry although hmac_accessor is on" % name,
                            "signature": "plain-accessor:" + name}
        for field, ig in datas:
            for key, text in _plain_leaves(field):
                if "CANARY" in text and key not in ig:
                    return {"what": "secret data value in clear under key %r (not exempt)" % key,
                            "signature": "plain-data-leaf"}
        return None


_VAULT = {"name": "c11vault", "module": "root", "pkg": "./internal/vault",
          "files": {"internal/vault/zz_verif_c11_test.go": "wb/vault/zz_verif_c11_test.go",
                    "internal/vault/zz_verif_common_test.go": "wb/vault/zz_verif_common_test.go",
                    "internal/zzverif/vh/vh.go": "vh/vh.go"}}


class Broker(Stream):
    name = "auditbroker"
    driver = "auditbroker"
    harness = _VAULT
    testname = "TestVerifC11Broker"
    rule = ("AuditBroker.LogRequest/LogResponse with 0..3 scripted devices; EVERY outcome vector over {ok, err, panic, "
            "header-hash error, header-hash panic} (1+5+25+125 vectors x 2 entry kinds), repeated so that Go map order "
            "yields different visiting orders (the observed order is part of the op); plus AuditedHeadersConfig.ApplyConfig on "
            "random header configurations (hmac on/off) and request headers (op hdr); non-trivial = at least one device; "
            "distinct = distinct (kind, vector in visiting order)")

    def nontrivial(self, op, impl):
        return not op.endswith("\t-")

    def predicate(self, op, impl):
        base = Stream.predicate(self, op, impl)
        if base:
            return base
        if op.startswith("hdr\t"):
            cfg = {}
            f = op.split("\t")
            if f[1] != "-":
                for e in f[1].split(","):
                    n, h = e.split(":")
                    cfg[n] = h == "1"
            if impl != "-" and not impl.startswith("err"):
                for e in impl.split(","):
                    n, vs = e.split("=")
                    for v in vs.split("+"):
                        if v.startswith("s") and v != "s-" and (n not in cfg or cfg[n]):
                            return {"what": "header %s shown to the device in clear" % n, "signature": "header-in-clear"}
            return None
        # success with >= 1 device requires an accepting device and no panic (recomputed from the printed counters)
        vec = op.split("\t")[1]
        r = impl.split(" ")
        if r[0] == "ok" and vec != "-" and r[3] == "accepted=0":
            return {"what": "broker success without an accepting device", "signature": "broker-ok-none-accepted"}
        if r[0] == "panic":
            return {"what": "panic escaped the audit broker", "signature": "broker-panic-escaped"}
        return None


class E2E(Stream):
    name = "audite2e"
    driver = "audite2e"
    harness = dict(_VAULT, name=_VAULT["name"] + "e", files=dict(_VAULT["files"], **{"internal/vault/zz_verif_c11e_test.go": "wb/vault/zz_verif_c11e_test.go"}))
    testname = "TestVerifC11E2E"
    rule = ("real Core + the REAL file audit device (default mode) + a kv mount tuned with random audit_non_hmac_request_keys / "
            "audit_non_hmac_response_keys (first case: disjoint lists); 6 write/read pairs per case, every value a fresh canary; "
            "after each request the new lines of the audit file are scanned for the canaries; compared: the set of keys whose "
            "values are in clear; predicate: clear only under a key exempted for that side; non-trivial = every line")

    def nontrivial(self, op, impl):
        return impl.startswith("clear:")


class Pipe(Stream):
    name = "auditpipe"
    driver = "auditpipe"
    harness = _VAULT
    testname = "TestVerifC11Pipe"
    rule = ("real unsealed Core with 0..3 scripted audit devices enabled through Core.enableAudit, recording secrets "
            "backend at rec/ and recording credential backend at auth/c11/; request kinds read, write, list, leased "
            "secret, unauthenticated read, login (auth block), token create, wrapped read, bad token, read of a missing "
            "key, sys/wrapping/unwrap of a wrapped response (raw body), last use of a use-limited token; for each kind every pair (request-entry vector, response-entry vector) over {ok, err, panic} for "
            "k = 0..3 devices (1 + 9 + 81 + 729 pairs per kind, exhaustive); non-trivial = at least one device; distinct = distinct op line")

    def nontrivial(self, op, impl):
        f = op.split("\t")
        return f[0] == "e2e" or f[-1] != "-"

    def predicate(self, op, impl):
        base = Stream.predicate(self, op, impl)
        if base:
            return base
        f = op.split("\t")
        if f[0] != "pipe":
            return None
        rq, rs = f[5], f[6]
        r = dict(x.split("=", 1) for x in impl.split(" ") if "=" in x)
        if "ret" not in r:
            return None
        routed = r["route"] == "1"
        rq_acc = int(r["rq"].split("/")[1])
        rs_acc = int(r["rs"].split("/")[1])
        ret = r["ret"]
        carries = ret.split("/")[1] not in ("nil", "errresp", "-")
        if rq != "-":
            if routed and rq_acc == 0:
                return {"what": "request routed to the backend although no device accepted the request entry",
                        "signature": "route-without-request-audit"}
            if carries and rs_acc == 0:
                return {"what": "response content returned although no device accepted the response entry",
                        "signature": "data-without-response-audit"}
            if "o" not in rs and ret != "internal/nil":
                return {"what": "all devices failed on the response entry; client got %s" % ret,
                        "signature": "allfail-not-bare-error"}
        if ret == "panic":
            return {"what": "panic escaped HandleRequest", "signature": "pipeline-panic"}
        return None


class HTTPNonLogical(Stream):
    name = "audithttp"
    driver = "audithttp"
    harness = {"name": "c11http", "module": "root", "pkg": "./internal/http",
               "files": {"internal/http/zz_verif_c11h_test.go": "wb/http/zz_verif_c11h_test.go",
                         "internal/zzverif/vh/vh.go": "vh/vh.go"}}
    testname = "TestVerifC11HTTP"
    timeout = 600
    rule = ("the audited 'non logical' endpoints of the HTTP layer (handleAuditNonLogical): sys/generate-root/attempt and the "
            "final sys/rekey/update over a real listener, one audit device that accepts everything / refuses every request entry "
            "/ refuses every response entry; what the client received (status class, OTP or new key shares in the body) against "
            "the pipeline rule (Obao.AuditPipeline: no response without an accepted response entry); non-trivial = every line")

    def nontrivial(self, op, impl):
        return True


class C11(PropCheck):
    pid = "C11"
    lean_modules = ["C11", "C11Gen"]

    def pre(self, ctx):
        core.regenerate()
    streams = [HashWalk(), Broker(), Pipe(), E2E(), HTTPNonLogical()]
    level_text = ("Lean theorems, all inputs: hash_no_plain_leaf / secret_only_where_exempt (every data tree, key list and HMAC "
                  "function: a string leaf survives in clear only if RFC 3339 shaped or under an exempt innermost key; shape "
                  "preserved), hash_auth_wrap (client and wrapping tokens always hidden, accessors iff hmac_accessor), "
                  "headers_only_as_configured, broker_at_least_one (+ accepted-device, fail-closed-on-panic, order-irrelevance) "
                  "for every outcome vector of every length, route_after_request_audit / data_after_response_audit / "
                  "all_fail_bare_error for every pair of fault vectors; models tied to internal/audit, audit_broker.go, "
                  "audited_headers.go and request_handling.go by three differential streams on every run, the broker and "
                  "pipeline streams exhaustive for up to 3 devices, and the property predicates (canary scan of emitted bytes, "
                  "audit-before-route ordering, bare error) are evaluated directly on the implementation's outputs")
    level_note = ("trusted: Lean kernel; hand-written models (HashWalk incl. a transliteration of time.Time.UnmarshalText, Audit, "
                  "AuditPipeline) and their differential ties; HMAC-SHA256 symbolic (an HMAC value reveals nothing about its "
                  "input); the pipeline model abstracts routing + post-processing into one input and is validated on twelve "
                  "request kinds, not derived from the source (no control-flow extraction yet); RFC 3339 shaped values are "
                  "exempt from HMAC by documented design; raw mode (log_raw) is outside the property")
    technique = ("Lean 4 theorems (mutual structural induction over JSON trees, induction over outcome vectors, stage-machine case "
                 "analysis) + differential correspondence (black-box internal/audit incl. the real file device; white-box "
                 "internal/vault with scripted audit devices on a real Core)")
    assumptions = [
        "HMAC-SHA256 under the device salt is one-way and its hex output does not contain the input (symbolic cryptography)",
        "request/response data reaches the formatter as JSON-representable Go values (valid UTF-8 strings)",
        "audit devices are called sequentially under the broker's read lock (as in the code); device faults are ok/error/panic "
        "in Log* and error/panic in GetHash",
    ]
    trusted_base = [
        "Lean 4.33.0 kernel",
        "models Obao/Model/{HashWalk,Audit,AuditPipeline}.lean tied to the Go code by streams hashwalk, auditbroker, auditpipe",
        "harness/bb/c11, harness/wb/vault/zz_verif_c11_test.go (+ shared zz_verif_common_test.go, vh) and lib/*.py",
        "Go's encoding/json and crypto/hmac as used by the harness to read entries back and recompute HMACs",
    ]


CHECK = C11()
