import os
from lib import core
from lib.runner import PropCheck, Stream

HARNESS = {"name": "c03bb", "module": "root", "pkg": "./internal/zzverif/c03",
           "files": {"internal/zzverif/c03/c03_test.go": "bb/c03/c03_test.go",
                     "internal/zzverif/vh/vh.go": "vh/vh.go"}}

SIG_NEG_TTL = "order-dependent-negative-wrapping-ttl"
SIG_ALIAS = "newacl-aliases-policy-slices"
SIG_CAPS = "caps-trailing-slash-list-fallback"


def strip(impl):
    return impl.split("!VIOL:", 1)[0]


def has_negative_ttl(ops):
    for o in ops:
        f = o.split("\t")
        if f[0] != "policy":
            continue
        for rule in f[2:]:
            r = rule.split("|")
            if len(r) == 10 and (r[3].startswith("-") and r[3] != "-" or r[4].startswith("-") and r[4] != "-"):
                return True
    return False


class _Any:
    """the semantics answers `n/a` outside its domain (a hand-built stanza with a negative wrapping-TTL bound; the parser refuses those since the repair of F19):
    compares equal to every implementation result"""
    def __eq__(self, other):
        return True

    def __ne__(self, other):
        return False


class ACLStream(Stream):
    name = "acl"
    driver = "acl"
    harness = HARNESS
    testname = "TestVerifC03"
    rule = ("policies generated as HCL (patterns over literal segments, '+', trailing '*'/partial globs, empty "
            "segments, leading '/'; capability subsets incl. deny, sudo, legacy policy=, invalid names; wrapping-TTL "
            "bounds; allowed/denied parameter maps incl. '*', empty lists, globbed values; required parameters; "
            "pagination limits), parsed by ParseACLPolicy (parsed rules compared), 1-4 policies sharing a pool of 2-5 "
            "patterns, attached by NewACL in two random orders (fresh parse each) and, in a fifth of the cases, from "
            "shared policy objects; 6-15 requests per case (paths derived from the patterns or random, trailing "
            "slashes, all operations, parameter maps, limit values, wrap TTLs) evaluated by AllowOperation (with and "
            "without capCheckOnly) and Capabilities; non-trivial = parse ok / request allowed / capability list not "
            "[deny]; distinct = distinct op line")

    def norm_impl(self, op, impl):
        # a decision the harness itself flagged as changed by the aliasing of finding F18 (repaired; kept armed) is reported through the
        # predicate (marker + signature); it is not additionally counted as a model mismatch
        if "!VIOL:" in impl and impl.endswith("#" + SIG_ALIAS):
            return _Any()
        return strip(impl)

    def nontrivial(self, op, impl):
        k = op.split("\t", 1)[0]
        if k == "allow":
            return impl.startswith("a=1") or (op.split("\t")[2] == "1" and " c=0 " not in impl)
        if k == "caps":
            return strip(impl) not in ("deny", "panic")
        return impl.startswith("ok")

    def case_predicate(self, ops, impls):
        """order independence and purity, evaluated on the implementation's outputs of one case:
        the same request against ACLs built from permutations of the same policies gives the same result."""
        fails = []
        slot_key = {}
        seen = {}
        for o, a in zip(ops, impls):
            f = o.split("\t")
            if f[0] == "attach":
                if f[2] == "fresh" and a == "ok" and f[4] == "-":   # expiration overrides are keyed by position
                    slot_key[f[1]] = ",".join(sorted(f[3].split(",")))
                else:
                    slot_key.pop(f[1], None)
                continue
            if f[0] not in ("allow", "caps") or f[1] not in slot_key:
                continue
            key = (slot_key[f[1]], f[0]) + tuple(f[2:])
            r = strip(a)
            if key in seen and seen[key][1] != r and len(fails) < 3:
                why = {"what": "decision depends on the order in which the policies are attached: %s => %s with %s, %s with %s"
                               % ("\t".join(f[2:]), seen[key][1], seen[key][0], r, f[1])}
                if has_negative_ttl(ops):
                    why["signature"] = SIG_NEG_TTL
                fails.append(why)
            seen.setdefault(key, (f[1], r))
        return fails


SPEC_RULE = ("every implementation output of stream 'acl' is also compared with the declarative semantics "
             "Obao/Model/ACLSpec.lean (driver stream 'aclspec', a function of the multiset of stanzas); a difference is a "
             "concrete failing input of the property")


class CoreCapsStream(Stream):
    name = "corecaps"
    driver = "authz"
    harness = {"name": "vaultc03c", "module": "root", "pkg": "./internal/vault",
               "files": {"internal/vault/zz_verif_common_test.go": "wb/vault/zz_verif_common_test.go",
                         "internal/vault/zz_verif_c02_test.go": "wb/vault/zz_verif_c02_test.go",
                         "internal/vault/zz_verif_c03c_test.go": "wb/vault/zz_verif_c03c_test.go",
                         "internal/zzverif/vh/vh.go": "vh/vh.go"}}
    testname = "TestVerifC03Core"
    rule = ("one real Core per case, three set-ups in turn: everything in the root namespace / everything inside a child "
            "namespace / CROSS (policies and tokens in the root namespace, their rules naming the child namespace's paths "
            "in full; mounts, requests and the capabilities question in the child namespace); policies over the recording "
            "mounts (exact and glob rules, capability sets incl. deny and sudo), service and batch tokens; per question the "
            "seven path operations are REQUESTED with the token (req lines, model of C02) and Core.Capabilities + the "
            "sys/capabilities endpoint are asked about the same path in the same namespace; judged on the code's own "
            "answers: granted => reported, deny reported => nothing granted, endpoint = Core.Capabilities; non-trivial = "
            "a capability list other than [deny] / a granted request; distinct = distinct op line")

    def nontrivial(self, op, impl):
        if op.startswith("caps\t"):
            return not impl.startswith("deny")
        f = impl.split("|")
        return op.startswith(("req\t", "reqns\t")) and len(f) == 4 and (f[0] == "ok" or f[1] != "-")

    @staticmethod
    def _refusal(op, res):
        # as in C02: a leading-slash path inside a child namespace is refused by the ACL instead of by the router
        if op.startswith("reqns\t"):
            for c in ("denied|", "nopath|"):
                if res.startswith(c):
                    return "refused|" + res[len(c):]
        return res

    def norm_impl(self, op, impl):
        return self._refusal(op, impl.split("!VIOL:", 1)[0])

    def norm_model(self, op, model):
        return self._refusal(op, model)


class C03(PropCheck):
    pid = "C03"
    lean_modules = ["C03", "C03Gen", "C03Core"]

    def pre(self, ctx):
        core.regenerate()
    streams = [ACLStream(), CoreCapsStream()]
    level_text = ("Lean theorems over a transliterated model of parsePaths/NewACL/AllowOperation/"
                  "CheckAllowedFromNonExactPaths/Capabilities; the model is tied to the Go code by a differential stream "
                  "on every run; order independence and capability-list agreement are evaluated directly on the "
                  "implementation's outputs")
    level_note = ("trusted: Lean kernel; the hand-written model and its differential tie; HCL decoding, templating, path "
                  "expiry, control groups (except their merge across policies: Model/ControlGroup.lean), MFA and granting-policy lists are outside the model; the ACL stream runs in the root namespace, the Core.Capabilities stream also inside and across a child namespace")
    technique = "Lean 4 theorems (induction over rule lists, List.Perm, strict-total-order comparator) + differential correspondence"
    assumptions = ["ASCII parameter names (strings.ToLower modelled by ASCII lower-casing)",
                   "wrapping TTLs are whole seconds; no int64 overflow",
                   "keys of one allowed_parameters/denied_parameters stanza are distinct after lower-casing"]
    trusted_base = ["Lean 4.33.0 kernel",
                    "model Obao/Model/ACL.lean tied to internal/vault/policy/{acl,policy}.go by stream 'acl'",
                    "harness/bb/c03 + lib/*.py",
                    "Core.Capabilities across namespaces: model Obao/Model/RequestAuthz.lean (capabilityList, coreCapabilities) tied by stream 'corecaps' (harness/wb/vault/zz_verif_c03c_test.go)"]


    def extra(self, ctx):
        """The property's predicate: the semantics is executable (driver stream `aclspec` = Obao/Model/ACLSpec.lean, proved
        equal to the implementation model in C03.acl_impl_eq_spec_partial), so every implementation decision of the
        trace is compared with it; a difference IS a concrete failing input of "ACL decisions equal the documented
        policy semantics"."""
        trace = os.path.join(core.WORK, "trace-%s-%s.tsv" % (self.pid, "acl"))
        if not os.path.exists(trace) or HARNESS["name"] not in ctx.get("built", {}):
            return None
        d = core.diff_stream("aclspec", trace, self.streams[0].norm_impl, lambda o, b: _Any() if b == "n/a" else b)
        concrete = []
        for m in d["mismatches"]:
            f = m["op"].split("\t")
            concrete.append({"stream": "aclspec",
                             "what": "implementation differs from the documented semantics: %s => implementation %s, semantics %s"
                                     % (" ".join(f[:6]), m["impl"], m["model"]),
                             "input": {"ops": m["prefix"][-80:], "op": m["op"], "impl": m["impl"], "semantics": m["model"]}})
            if len(concrete) >= 3:
                break
        na = sum(1 for b in d["model"] if b == "n/a")
        stats = {"aclspec": {"evaluations": d["evaluations"], "distinct_nontrivial": 0, "mismatches": d["n_mismatches"],
                             "outside_domain": na, "rule": SPEC_RULE}}
        return {"concrete": concrete, "broken": [], "stats": stats}


CHECK = C03()
