"""C01 — Barrier: stored data is confidential, authenticated and bound to its key.

pieces: Lean model Obao/Model/Barrier.lean + theorems Obao/Props/C01.lean; stream `barrier` (white-box harness in
internal/vault/barrier over a real AESGCMBarrier on inmem, adversary on the physical store); T-gen: the table of
direct physical writers (harness/bb/c01writers, go/types) regenerated into Obao/Gen/PhysicalWriters.lean in pre(),
theorem direct_writers_allowed by `decide` against Obao/Model/BarrierAllow.lean; the classification of every
regenerated site is recomputed through driver stream `barrierallow` and documented exceptions (F12) / unclassified
sites are reported as concrete failures."""
import os, subprocess, time
from lib import core
from lib.runner import PropCheck, Stream
from lib.core import TieBroken, log

GEN = os.path.join(core.LEAN, "Obao", "Gen", "PhysicalWriters.lean")
TSV = os.path.join(core.WORK, "c01-writers.tsv")


class BarrierStream(Stream):
    name = "barrier"
    driver = "barrier"
    harness = {"name": "c01barrier", "module": "root", "pkg": "./internal/vault/barrier",
               "files": {"internal/vault/barrier/zz_verif_c01_test.go": "wb/barrier/zz_verif_c01_test.go",
                         "internal/zzverif/vh/vh.go": "vh/vh.go"}}
    testname = "TestVerifC01"
    rule = ("real AESGCMBarrier over sdk/physical/inmem, fresh per case; random histories of put/txput/get/txget/delete/"
            "txdelete (35% routed through a barrier View with a random prefix split; SealWrap flag random)/Encrypt+raw "
            "put/Decrypt of the stored bytes/rotate/"
            "setver(1,2,invalid) interleaved with adversary steps on the physical store (single-byte "
            "flips incl. term retargeting and version byte, truncation, extension, transplant, header swap, replay of any "
            "older record, attacker bytes, any header in front of any produced body, deletion), each followed by plain and "
            "transactional reads; directed sweeps (every header bit, every byte position, every truncation length, "
            "extensions) for both formats and after rotations; the empty-path boundary case; every written record is "
            "opened by an independent crypto/cipher.NewGCM with harness-chosen key and AAD; non-trivial = the operation "
            "is not an error/none/bad-op; distinct = distinct op line")

    def nontrivial(self, op, impl):
        return not (impl.startswith("err") or impl in ("none", "bad-op", "done", "reset"))

    def predicate(self, op, impl):
        # the harness's own evaluation of P1-P3 (`!VIOL:` marker) is reported per CASE, with the history that led to
        # it (case_predicate), instead of per op
        return None

    def case_predicate(self, ops, impls):
        """(1) the `!VIOL:` markers of the harness (P1 only sealed records written, P2 tampered/transplanted reads
        error, P3 no plaintext/key fragment in the store), reported with the history up to the failing operation;
        (2) P2 re-evaluated independently of the harness's byte bookkeeping, from the trace alone: a read may return a
        caller value only if that value was put earlier in the case (authenticity, `get_authentic`)."""
        put_vals = set()
        bad = []
        sigs = set()
        for i, (o, a) in enumerate(zip(ops, impls)):
            f = o.split("\t")
            if "!VIOL:" in a:
                r = a.split("!VIOL:", 1)[1]
                what, sig = (r.split("#", 1) + [None])[:2]
                if sig not in sigs:
                    sigs.add(sig)
                    bad.append({"what": what, "signature": sig, "failing_op": o[:2000], "impl": a[:2000],
                                "history": [x[:400] for x in ops[max(0, i - 120):i + 1]]})
            if f[0] in ("put", "txput", "vput", "vtxput", "encput") and a.startswith("wrote:"):
                put_vals.add(f[2])
            elif f[0] in ("get", "txget", "vget", "vtxget", "dec") and a.startswith("ok:"):
                v = a.split("!VIOL:", 1)[0][3:]
                if v == "rootkey" or v.startswith("keyring:"):
                    continue
                if v not in put_vals and "forged-value" not in sigs:
                    sigs.add("forged-value")
                    bad.append({"what": "read returned a value that was never put in this history",
                                "signature": "forged-value", "failing_op": o[:2000],
                                "history": [x[:400] for x in ops[max(0, i - 120):i + 1]]})
        return bad[:3]


class CanaryStream(Stream):
    name = "corecanary"
    driver = "barriercanary"
    harness = {"name": "c01core", "module": "root", "pkg": "./internal/vault",
               "files": {"internal/vault/zz_verif_c01core_test.go": "wb/vaultc01/zz_verif_c01core_test.go",
                         "internal/zzverif/vh/vh.go": "vh/vh.go"}}
    testname = "TestVerifC01Core"
    rule = ("a whole Core (NewCore via TestCoreWithSealAndUI, UI on/off) over inmem; one request per kind (ACL policy, kv, "
            "cubbyhole, token metadata, mount description, response wrapping, identity entity, CORS, password policy, "
            "audited header name, UI header) carrying a fresh canary in a value position; after each request every "
            "physical value is scanned for any 8-byte canary fragment; then the keyring's term keys and root key are "
            "scanned for, a key rotation is performed and everything is scanned again; sys/raw storage selection (Core built "
            "with EnableRaw): ~48 generated keys per round — the exact bootstrap keys core/seal-config and "
            "core/recovery-config (value saved and restored), strict extensions (suffix, sub-path, trailing slash), "
            "near misses, protected paths and their extensions, other core/ keys, ordinary keys, namespaces/<uuid>/... "
            "for the root UUID, an unknown UUID and a live child namespace — each driven through (a) the real "
            "RawBackend.storageByPath called directly (type of the returned StorageAccess, allowWrites) and (b) sys/raw "
            "write (canary searched in the physical value + independent core.barrier.Get + read-back), list, read of "
            "plaintext planted in the physical backend, delete; the driver (Model/RawAccess.lean) predicts direct vs "
            "barrier vs refused; non-trivial = the request succeeded; distinct = distinct op line")

    def nontrivial(self, op, impl):
        return not impl.startswith("err")
    # predicate: the harness's `!VIOL:` marker (default)


def read_writers():
    rows = []
    if os.path.exists(TSV):
        for line in open(TSV):
            f = line.rstrip("\n").split("\t")
            if len(f) >= 3:
                rows.append(f)
    return rows


class C01(PropCheck):
    pid = "C01"
    streams = [BarrierStream(), CanaryStream()]
    technique = ("Lean 4 theorems over a symbolic (Dolev-Yao) model of the AES-GCM barrier with an adversarial physical "
                 "store: invariant + induction over arbitrary histories; refinement to a map; `decide` over a writer table "
                 "regenerated from go/types; differential correspondence with the real barrier incl. independent AEAD opens")
    level_text = ("Lean theorems over a transliteration of AESGCMBarrier encrypt/decrypt/lockSwitchedGet/putWithBackend/Rotate "
                  "with AES-GCM as a free constructor and an adversary rewriting the physical store at will: "
                  "put_writes_only_sealed, barrier_ops_write_only_sealed, put_confidential (non-interference over whole "
                  "histories), nonce_never_reused, get_ok_origin, get_authentic_v2 "
                  "(key binding, current format), get_authentic_v1 (legacy: authenticated, relocatable), get_authentic, "
                  "get_key_bound, get_raw_fails, get_tampered_fails (term / version / transplant), get_last_written "
                  "(refinement to a map across rotations), rotate_preserves_reads — all for unbounded histories; "
                  "direct_writers_allowed over the go/types-regenerated table of direct physical writers; "
                  "raw_direct_only_for_fixed_set_full / raw_direct_only_for_fixed_set / raw_plain_path_direct_only_fixed / "
                  "raw_uuid_alias_behind_barrier over a transliteration of RawBackend.storageByPath WITH the F47 repair "
                  "(which sys/raw requests get the unencrypted direct access: only the exact full paths core/seal-config "
                  "and core/recovery-config). Model tied to the "
                  "Go code on every run by stream `barrier` (real barrier on inmem, independent AEAD opens, tamper sweeps) and "
                  "the property predicate (only sealed records written; tampered/transplanted reads error; no plaintext or "
                  "key fragment in the physical store) is evaluated on every implementation output")
    level_note = ("trusted: Lean kernel; AES-GCM idealised (opens only under the same key and AAD; bodies unforgeable) — made "
                  "concrete on every run by independent crypto/cipher opens; hand-written model and its differential tie; "
                  "the go/types extractor; allow-list classes are a reading of the property's fixed set. Known deviations: F12 "
                  "(UIConfig.save writes sys/config/ui headers in clear, by design). F47 (sys/raw namespaces/<root-uuid>/core/"
                  "seal-config selected the direct access) is repaired by fixes/C01-F47-raw-direct-only-for-exact-path.patch; "
                  "the model follows the repaired code and the predicate keeps signature raw-direct-via-namespace-uuid-alias "
                  "armed. Boundary: version 2 binds no AAD for the "
                  "EMPTY storage path (theorem empty_path_relocatable; no server path writes it). Seal/unseal is C10")
    assumptions = [
        "AES-GCM (crypto/cipher) is an ideal AEAD: a body opens only under the key and AAD it was sealed with; nonces are fresh",
        "fewer than 2^32 key rotations (term is a uint32)",
        "writers reached through packages outside internal/vault (raft, physical backends' own bootstrap, command/) are "
        "outside the regenerated table",
    ]
    trusted_base = [
        "Lean 4.33.0 kernel",
        "model Obao/Model/Barrier.lean tied to internal/vault/barrier/aes_gcm.go + keyring.go by stream 'barrier'",
        "harness/wb/barrier (overlaid, build tag verif), harness/bb/c01writers (go/packages + go/types), lib/*.py",
        "allow-list Obao/Model/BarrierAllow.lean (hand-written classification)",
    ]

    # ---- T-gen: regenerate the writer table --------------------------------------------------------------
    def pre(self, ctx):
        t0 = time.time()
        binp = core.build_harness("c01writers", "root", "./internal/zzverif/c01writers",
                                  {"internal/zzverif/c01writers/main.go": "bb/c01writers/main.go"}, test=False)
        if os.path.exists(TSV):
            os.remove(TSV)
        try:
            rc, out, dt = core.run([binp, "-repo", core.REPO, "-out", GEN, "-tsv", TSV], cwd=core.REPO,
                                   env=core.go_env("root"), timeout=900)
        except subprocess.TimeoutExpired:
            raise TieBroken("writers-extractor-timeout", "")
        log("c01writers rc=%d in %.1fs: %s" % (rc, dt, out.strip().split("\n")[-1][:200]))
        if rc != 0 or not os.path.exists(TSV):
            raise TieBroken("writers-extractor", out[-4000:])
        ctx["writers_wall"] = time.time() - t0

    def classify(self):
        rows = read_writers()
        if not rows:
            raise TieBroken("writers-table-empty", "the extractor produced no writer site: the scan is broken")
        core.ensure_driver()
        res = core.drive("barrierallow", ["\t".join(r[:3]) for r in rows])
        return rows, res

    def writer_failures(self):
        rows, res = self.classify()
        concrete, kinds = [], {}
        seen_exc = set()
        for r, c in zip(rows, res):
            kinds[c.split(":")[0]] = kinds.get(c.split(":")[0], 0) + 1
            site = {"file": r[0], "func": r[1], "method": r[2], "receiver_type": r[3] if len(r) > 3 else ""}
            if c == "unclassified":
                concrete.append({"stream": "writers", "what": "direct physical writer outside the allow-list (not in the "
                                 "fixed set of bootstrap records, not scoped out, not a documented exception): "
                                 "%s %s %s" % (r[0], r[1], r[2]),
                                 "signature": "unclassified-writer:%s:%s:%s" % (r[0], r[1], r[2]), "input": site})
            elif c.startswith("documented-exception:"):
                sig = c.split(":", 1)[1]
                if sig not in seen_exc:
                    seen_exc.add(sig)
                    concrete.append({"stream": "writers", "what": "documented exception: plaintext reaches the physical "
                                     "backend outside the barrier and outside the fixed set: %s %s %s" % (r[0], r[1], r[2]),
                                     "signature": sig, "input": site})
        return rows, res, concrete, kinds

    def extra(self, ctx):
        rows, res, concrete, kinds = self.writer_failures()
        stats = {"writers": {"evaluations": len(rows), "distinct_nontrivial": len(rows), "mismatches": 0,
                             "op_kinds": kinds,
                             "rule": "every Put/Delete call (and pass-through wrapper construction) on an sdk/physical "
                                     "receiver in internal/vault/** non-test non-barrier files, from go/types; classified "
                                     "by Obao.BarrierAllow.classify through driver stream barrierallow"}}
        samples = [{"stream": "writers", "op": "\t".join(r[:3]), "impl": c} for r, c in list(zip(rows, res))[:4]]
        return {"concrete": concrete, "broken": [], "stats": stats, "samples": samples}

    def search(self, ctx, broken):
        found = []
        try:
            found += [c for c in self.writer_failures()[2] if c["signature"].startswith("unclassified-writer")]
        except TieBroken:
            pass
        if not found:
            found = PropCheck.search(self, ctx, broken)
        return found


CHECK = C01()
