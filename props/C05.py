from lib.runner import PropCheck, Stream
from props.C05b_stream import Expiration


def eff_max(sys_max, bmax, emax):
    m = sys_max
    if bmax > 0 and bmax < m:
        m = bmax
    if emax > 0 and emax < m:
        m = emax
    return m


class CalcTTL(Stream):
    name = "calcttl"
    driver = "ttl"
    harness = {"name": "c05bb", "module": "sdk", "pkg": "./zzverif/c05",
               "files": {"zzverif/c05/c05_test.go": "bb/c05/c05_test.go", "zzverif/vh/vh.go": "vh/vh.go"}}
    testname = "TestVerifC05"
    rule = ("framework.CalculateTTL on a lattice of (increment, backend TTL, period, backend max, explicit max, system "
            "max/default, elapsed) around every comparison boundary plus random values; now sampled before/after the "
            "call (retry when the second changes); non-trivial = a TTL was granted; distinct = distinct input tuple "
            "ignoring the wall-clock field")

    def predicate(self, op, impl):
        if not impl.startswith("ok:"):
            return None
        f = op.split("\t")
        now, sz, start, sys_max, sys_def, incr, bttl, period, bmax, emax = [int(x) for x in f[1:]]
        if sz == 1:
            start = now
        ttl = int(impl.split(":")[1])
        m = eff_max(sys_max, bmax, emax)
        if period <= 0:
            if now + ttl > start + m:
                return "granted expiry exceeds issue time + effective max TTL"
        else:
            if ttl > period or ttl > m:
                return "periodic TTL exceeds period or effective max TTL"
            if emax > 0 and now + ttl > start + emax:
                return "periodic TTL exceeds issue time + explicit max TTL"
        return None


class C05(PropCheck):
    pid = "C05"
    lean_modules = ["C05", "C05b"]
    streams = [CalcTTL(), Expiration()]
    level_text = ("Lean theorems: calcTTL_bound (every granted TTL respects issue time + effective maximum, all inputs), "
                  "renew_sequence_bound (no renewal sequence passes the bound), past_max_refused; model tied to "
                  "framework.CalculateTTL by a differential lattice stream on every run, and the bound is evaluated "
                  "directly on every implementation output; second stream: the expiration manager of a real Core (register / renew / "
                  "revoke / restart / crash prefixes) compared with a model of its tracking sets, theorems tracked_eq_stored, "
                  "restart_tracks_stored, unrenewable_refused, renew_within_max, job_resolves_within_budget (Props/C05b.lean)")
    level_note = ("trusted: Lean kernel; hand-written model of CalculateTTL and its differential tie; int64 overflow excluded "
                  "(durations within +-2^61 ns); the lease-tracking half of C05 (expiration manager restore) is covered by the "
                  "second stream when present, else named as a gap in the evidence")
    technique = "Lean 4 theorems (case split + omega, induction over renewal sequences) + differential correspondence"
    assumptions = ["durations within +-2^61 ns (no int64 overflow)", "time.Now() monotone within one call"]
    trusted_base = ["Lean 4.33.0 kernel", "model Obao/Model/TTL.lean tied to sdk/framework/lease.go by stream 'calcttl'",
                    "harness/bb/c05 + lib/*.py"]


CHECK = C05()
