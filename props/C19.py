from lib.runner import PropCheck, Stream

REFUSED = ("denied", "err:internal")
FINDING_LATE_LEASE = "lease-registered-after-token-revocation"


def parse_case(ops, impls):
    """structured view of one case of the `usecount` stream (implementation side only)"""
    c = {"n": None, "m": None, "kinds": [], "ev": [], "done": {}, "done_at": {}, "first_ev": {}, "puts": [],
         "final": None, "leases": None, "after": None, "bg": None, "bg_at": None, "abort": None, "tokidx_at": {}}
    for idx, (o, a) in enumerate(zip(ops, impls)):
        f = o.split("\t")
        if f[0] == "init":
            c["n"], c["m"], c["kinds"] = int(f[1]), int(f[2]), f[3:]
        elif f[0] == "ev":
            t = int(f[1])
            c["ev"].append((idx, t, f[2], f[3]))
            c["first_ev"].setdefault(t, idx)
            if f[2] == "put" and f[3] == "tok-id":
                c["puts"].append((idx, t))
            if f[2] == "put" and f[3] == "lease-tokidx":
                c["tokidx_at"][t] = idx
        elif f[0] == "done":
            c["done"][int(f[1])] = a
            c["done_at"][int(f[1])] = idx
        elif f[0] == "final":
            c["final"] = a
        elif f[0] == "leases":
            c["leases"] = a
        elif f[0] == "after":
            c["after"] = (f[1], a)
        elif f[0] == "bg":
            c["bg"], c["bg_at"] = a, idx
        elif f[0] == "abort":
            c["abort"] = a
    return c


class UseCount(Stream):
    name = "usecount"
    driver = "usecount"
    harness = {"name": "vaultcore-c19", "module": "root", "pkg": "./internal/vault",
               "files": {"internal/vault/zz_verif_common_test.go": "wb/vault/zz_verif_common_test.go",
                         "internal/vault/zz_verif_c19_test.go": "wb/vault/zz_verif_c19_test.go",
                         "internal/vault/zz_verif_c18_test.go": "wb/vault/zz_verif_c18_test.go",
                         "internal/zzverif/vh/vh.go": "vh/vh.go"}}
    testname = "TestVerifC19"
    rule = ("real Core on a gated in-memory backend (cache off), token with num_uses n in 1..4, m = n+1..n+3 (12%: m <= n) "
            "goroutines each issuing one request of a random kind (cubbyhole read/write, policy-denied sys/mounts, "
            "lookup-self, leased secret from a recording backend, plain backend read, child-token creation) with that "
            "token; seeded schedules (uniform random, bursts, sequential) decide which goroutine executes its next "
            "storage op; the observed (thread, op, key class) sequence, lock waits, outcome classes, the token entry "
            "read back, lease accounting and one more sequential request are replayed on the Lean micro-step model; "
            "non-trivial = the event/answer is not a refusal; distinct = distinct op line within its case position")

    def nontrivial(self, op, impl):
        return impl not in ("bad-op",) and not impl.startswith("abort")

    def case_predicate(self, ops, impls):
        """the property itself, evaluated on what the implementation did (no model involved)"""
        if ops and (ops[0].startswith("sealdenied\t") or ops[0].startswith("nslast\t") or ops[0].startswith("orphanrace\t") or ops[0].startswith("batchuses\t") or ops[0].startswith("rootlast\t") or ops[0].startswith("lastwrap\t")):
            return []      # the harness evaluates the predicate itself (!VIOL marker)
        c = parse_case(ops, impls)
        out = []
        n, m, kinds = c["n"], c["m"], c["kinds"]
        if n is None:
            return ["case without init"]
        if c["abort"]:
            return ["schedule could not be driven to completion: " + c["abort"]]
        if any(v == "panic" for v in c["done"].values()):
            out.append("a request panicked")
        if len(c["done"]) != m:
            out.append("not every request completed")
            return out
        putters = [t for _, t in c["puts"]]
        # (1) at most n decrements / requests past the use step, each request at most once
        if len(putters) > n or len(set(putters)) != len(putters):
            out.append("more than n requests got past the use step (decrements=%d, n=%d)" % (len(putters), n))
        processed = [t for t, cl in c["done"].items() if cl not in REFUSED]
        if len(processed) > n:
            out.append("more than n requests were processed (n=%d, outcomes=%s)" % (n, sorted(c["done"].items())))
        for t in processed:
            if t not in putters:
                out.append("request %d was processed without consuming a use" % t)
        # (2) exactly n when at least n completed
        if m >= n and len(putters) < n:
            out.append("fewer than n requests got past the use step although %d completed" % m)
        # (3) real-time order: a request that starts after n requests have completed must be refused
        for t in range(m):
            before = sum(1 for u, at in c["done_at"].items() if at < c["first_ev"].get(t, -1))
            if before >= n and (c["done"][t] not in REFUSED or t in putters):
                out.append("request %d started after %d requests had completed and was not refused" % (t, before))
        # (4) afterwards: token revoked / remaining uses exact, leases revoked, later request refused
        if m >= n:
            if c["final"] != "gone":
                out.append("token entry not revoked after its last use: " + str(c["final"]))
            if c["after"] and c["after"][1] != "denied":
                out.append("request after the last use was not refused: %s" % (c["after"],))
            if c["bg"] not in (None, "gone"):
                out.append("revocation queued by the last use did not complete: " + str(c["bg"]))
        else:
            if c["final"] != "uses:%d" % (n - m):
                out.append("remaining uses %s, expected %d" % (c["final"], n - m))
        if c["leases"]:
            issued, revoked = [int(x.split(":")[1]) for x in c["leases"].split("/")[:2]]
            nlease = sum(1 for t in putters if kinds[t] == "lease")
            if issued != nlease:
                out.append("backend issued %d secrets, %d lease requests got past the use step" % (issued, nlease))
            if c["final"] == "gone" and revoked != issued:
                late = [t for t, at in c["tokidx_at"].items() if c["bg_at"] is not None and at > c["bg_at"]]
                w = {"what": "token revoked after its last use but %d lease(s) issued under it are still live "
                             "(issued=%d revoked=%d; lease registered after the revocation ran: threads %s)"
                             % (issued - revoked, issued, revoked, late)}
                if late and issued - revoked <= len(late):
                    w["signature"] = FINDING_LATE_LEASE
                out.append(w)
        # (5) a secret leased on the last use is withheld
        if len(putters) >= n and n >= 1:
            last = putters[n - 1]
            if kinds[last] == "lease" and "secret" in c["done"][last]:
                out.append("secret leased on the final use was returned")
        # (6) a use-limited token never creates a child
        for t, cl in c["done"].items():
            if kinds[t] == "create" and cl.startswith("ok"):
                out.append("use-limited token created a child token")
        if c["after"] and c["after"][0] == "create" and c["after"][1].startswith("ok"):
            out.append("use-limited token created a child token")
        return out


class C19(PropCheck):
    pid = "C19"
    streams = [UseCount()]
    level_text = ("Lean theorems over a micro-step model of concurrent requests presenting one use-limited token "
                  "(lookup, per-token lock, re-read, decrement / pending marker, unlock, request body, deferred LazyRevoke, "
                  "expiration worker), for every n >= 1, every number and mix of requests and EVERY schedule: "
                  "uses_at_most_n, exactly_n_if_enough, after_nth_use_rejected, refused_only_when_exhausted, last_use_revokes, "
                  "queued_revocation_completes, last_use_secret_withheld, limited_cannot_create, create_step_refused, uses_need_lock (lock-free "
                  "variant grants n+1, by decide); last_use_revokes_leases: _partial proved, _full refuted by _cex (finding: a "
                  "lease registered after the token's revocation ran is never revoked). Tie: trace validation - observed "
                  "schedules of a real Core on a gated backend are replayed on the model on every run; the property "
                  "predicate is evaluated directly on the observed outcomes")
    level_note = ("trusted: Lean kernel; hand-written model Obao/Model/UseCount.lean and its trace-validation tie (gated "
                  "physical backend, 30 ms quiet period to detect lock waits); locks are ideal mutual exclusion; lookups' read "
                  "lock is not modelled (model allows a superset of interleavings); single active node; storage does not "
                  "fail; the expiration worker's revocation is observed as one step placed after the last use returned")
    technique = "Lean 4 invariant proof over all schedules (one-step lemma + induction) + trace validation against the real Core"
    assumptions = ["sync.RWMutex provides mutual exclusion", "single active node (no standby forwarding)",
                   "storage operations do not fail during the use step", "explicit revocation concurrent with uses is out of scope (C04)"]
    trusted_base = ["Lean 4.33.0 kernel", "model Obao/Model/UseCount.lean tied to internal/vault (token_store.go UseToken/"
                    "lookupInternal/handleCreateCommon, request_handling.go handleRequest, expiration.go) by stream 'usecount'",
                    "harness/wb/vault/zz_verif_c19_test.go + zz_verif_common_test.go + lib/*.py"]


CHECK = C19()
