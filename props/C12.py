from lib.runner import PropCheck, Stream
from lib import core


def unhex(s):
    return b"" if s == "-" else bytes.fromhex(s)


def has_dot_segment(b):
    """independent (python) statement of the traversal predicate: some '/'-separated segment is '.' or '..'"""
    return any(seg in (b".", b"..") for seg in b.split(b"/"))


def chain_prefix(ch):
    return b"".join(unhex(x) for x in ch.split(","))


class ViewStream(Stream):
    name = "view"
    driver = "view"
    harness = {"name": "c12bb", "module": "sdk", "pkg": "./zzverif/c12",
               "files": {"zzverif/c12/c12_test.go": "bb/c12/c12_test.go", "zzverif/vh/vh.go": "vh/vh.go"}}
    testname = "TestVerifC12View"
    rule = ("logical.IsRelativePath on a hostile corpus, all strings over {'.','/','a'} up to length 7 (10 thorough) and random "
            "segment compositions (alphabet incl. '.', '..', '', '...', non-ASCII, invalid UTF-8, NUL); stateful cases: 2-4 views "
            "(root prefixes incl. namespace/mount shaped ones, 0-3 nested SubViews incl. hostile sub-prefixes) over one recorded "
            "logical.InmemStorage, 20-50 ops put/get/delete/list/listpage/expand/truncate/prefix with plain and hostile keys; "
            "compared: error class, the exact underlying key(s) touched, get hit + returned key, listed names; non-trivial = the "
            "op reached the underlying storage or the path predicate was true")

    def nontrivial(self, op, impl):
        return impl.startswith("ok|") or impl == "1" or (not impl.startswith("err") and impl not in ("0", "bad-op"))

    def predicate(self, op, impl):
        impl = impl.split("!VIOL:", 1)[0]
        f = op.split("\t")
        kind = f[0]
        if impl == "panic":
            return {"what": "panic in storage view", "signature": "view-panic"}
        if kind == "isrel":
            # the Go predicate must agree with the segment-level meaning
            want = has_dot_segment(unhex(f[1]))
            if (impl == "1") != want:
                return "IsRelativePath(%r) = %s but the key %s a '.'/'..' segment" % (unhex(f[1]), impl, "has" if want else "has no")
            return None
        if kind not in ("put", "get", "delete", "list", "listpage"):
            return None
        pre = chain_prefix(f[1])
        key = unhex(f[2])
        parts = impl.split("|")
        touched = [] if len(parts) < 2 or parts[1] == "-" else parts[1].split(",")
        if parts[0].startswith("err"):
            if touched:
                return "a view operation that failed still touched the underlying storage: %s" % parts[1]
            return None
        if len(touched) != 1:
            return "a view operation touched %d underlying keys" % len(touched)
        tkind, tkey = touched[0].split("=", 1)
        tkey = unhex(tkey.split(":")[0])
        if not tkey.startswith(pre):
            return {"what": "view with prefix %r touched %r outside its prefix" % (pre, tkey), "signature": "view-escape-prefix"}
        rem = tkey[len(pre):]
        if has_dot_segment(rem):
            return {"what": "view with prefix %r passed key %r containing a '.'/'..' segment to the storage below (%s)"
                            % (pre, rem, tkind), "signature": "view-dot-segment"}
        if rem != key:
            return "view touched %r for caller key %r" % (rem, key)
        if kind in ("list", "listpage") and len(parts) >= 3:
            body = parts[2][1:-1]
            for n in ([] if body == "" else body.split(",")):
                nb = unhex(n)
                if b"/" in nb[:-1]:
                    return "listed name %r is not a single relative segment" % nb
        if kind == "get" and len(parts) >= 3 and parts[2].startswith("1:"):
            if unhex(parts[2][2:]) != key:
                return "get returned entry key %r for requested key %r" % (unhex(parts[2][2:]), key)
        return None


class RouterStream(Stream):
    name = "router"
    driver = "router"
    harness = {"name": "c12routing", "module": "root", "pkg": "./internal/vault/routing",
               "files": {"internal/vault/routing/zz_verif_c12_test.go": "wb/routing/zz_verif_c12_test.go",
                         "internal/zzverif/vh/vh.go": "vh/vh.go"}}
    testname = "TestVerifC12Router"
    rule = ("real routing.Router, 5 namespaces (root, n1/, n1/c/, n2/, n10/), 3-8 fake backends per case mounted at nested / "
            "sibling / namespace-named paths (same type, distinct UUIDs, views namespaces/<ns>/logical/<uuid>/), then 30-70 ops: "
            "lookup (MatchingMount / MatchingMountEntry / MatchingStorageByAPIPath / MatchingStoragePrefixByAPIPath), route "
            "(read / revoke / rollback, tainted mounts and namespaces, token entries for the cubbyhole keying, the backend puts the "
            "client-supplied key through req.Storage over a recording storage), unmount, remount, taint; paths address mounts of "
            "other namespaces through the path, traversal segments, missing trailing slash; non-trivial = a mount matched")

    def nontrivial(self, op, impl):
        return impl.startswith("ok") or (op.startswith("lookup") and not impl.startswith("-|"))

    def case_predicate(self, ops, impls):
        bad = []
        table = {}   # route prefix -> (id, storage prefix)
        for op, impl in zip(ops, impls):
            impl = impl.split("!VIOL:", 1)[0]
            f = op.split("\t")
            if impl == "panic":
                bad.append({"what": "router panicked on " + f[0], "signature": "router-panic"})
                continue
            if f[0] == "mount" and impl == "ok":
                table[unhex(f[1]) + unhex(f[2])] = (f[3], unhex(f[4]))
            elif f[0] == "unmount" and impl == "ok":
                table.pop(unhex(f[1]) + unhex(f[2]), None)
            elif f[0] == "remount" and impl == "ok":
                v = table.pop(unhex(f[1]) + unhex(f[2]), None)
                if v is not None:
                    table[unhex(f[1]) + unhex(f[3])] = v
            elif f[0] == "lookup":
                q = unhex(f[1]) + unhex(f[2])
                cands = [p for p in table if q.startswith(p)]
                m, mid, st = impl.split("|")
                if not cands:
                    if mid != "nil":
                        bad.append("lookup of %r matched mount %s although no mounted prefix matches" % (q, mid))
                    continue
                best = max(cands, key=len)
                if mid == "nil" or unhex(m) != best or table[best][0] != mid or unhex(st) != table[best][1]:
                    bad.append({"what": "lookup of %r gave mount %r id %s storage %s; longest mounted prefix is %r (id %s, storage %r)"
                                        % (q, m, mid, st, best, table[best][0], table[best][1]), "signature": "router-not-longest-prefix"})
            elif f[0] == "route" and impl.startswith("ok|"):
                ns, path, key = unhex(f[1]), unhex(f[3]), unhex(f[5])
                _, mp, rel, mid, st, tok, touch = impl.split("|")
                mp, rel, st = unhex(mp), unhex(rel), unhex(st)
                q = ns + path
                cands = [p for p in table if q.startswith(p)]
                if not cands and not path.endswith(b"/"):
                    q = ns + path + b"/"
                    cands = [p for p in table if q.startswith(p)]
                if not cands:
                    bad.append("request %r was handled by mount %s although no mounted prefix matches" % (q, mid))
                    continue
                best = max(cands, key=len)
                if mp != best or table[best][0] != mid:
                    bad.append({"what": "request %r handled by mount %r (id %s); longest mounted prefix is %r (id %s)"
                                        % (q, mp, mid, best, table[best][0]), "signature": "router-not-longest-prefix"})
                    continue
                if st != table[best][1]:
                    bad.append({"what": "request %r to mount id %s got storage view %r, the mount's view is %r"
                                        % (q, mid, st, table[best][1]), "signature": "router-foreign-storage"})
                if mp + rel != q and not (rel == b"" and mp + b"/" == q):
                    bad.append("relative path %r is not the request path %r minus the mount prefix %r" % (rel, q, mp))
                sub = unhex(f[8]) if len(f) > 8 else b""
                if "=" in touch and not touch.startswith("odd"):
                    tk = unhex(touch.split("=", 1)[1])
                    # (the sub-view prefix is chosen by the backend itself, only the key below it is client-influenced)
                    if not tk.startswith(st + sub) or has_dot_segment(tk[len(st + sub):]) or tk[len(st + sub):] != key:
                        bad.append({"what": "backend of mount id %s (view %r) wrote physical key %r for client key %r"
                                            % (mid, st, tk, key), "signature": "mount-escape-storage"})
                elif touch == "err:relative":
                    if not has_dot_segment(key):
                        bad.append("key %r was refused as relative" % key)
                else:
                    bad.append("unexpected storage activity %s" % touch)
                adjusted = q[len(ns):]
                if adjusted.startswith(b"cubbyhole/"):
                    te = f[6]
                    if te == "nil":
                        bad.append("cubbyhole request without token entry reached the backend")
                    else:
                        rootns, service, prefixed, cub = te.split(":")
                        if tok == "dsalt" and rootns == "1" and prefixed == "0":
                            pass
                        elif tok == "cubby:" + cub and cub != "-":
                            pass
                        else:
                            bad.append({"what": "cubbyhole backend was shown client token class %s for token entry %s" % (tok, te),
                                        "signature": "cubbyhole-key-not-token-bound"})
        return bad


def clean_segments(full):
    """namespace.Canonicalize + split: strip one leading '/', path.Clean, segments (rooted paths walk nothing)"""
    if full.startswith(b"/"):
        full = full[1:]
    if full.startswith(b"/"):
        return []
    out = []
    for seg in full.split(b"/"):
        if seg in (b"", b"."):
            continue
        if seg == b"..":
            if out and out[-1] != b"..":
                out.pop()
            else:
                out.append(seg)
            continue
        out.append(seg)
    return out


def resolve_ns(nss, sealable, sealed, full):
    segs = clean_segments(full)
    live = [n for n in nss if not any(sealable.get(x) and sealed.get(x) and n.startswith(x) and n != x for x in nss)]
    best = b""
    for n in live:
        ns_segs = [x for x in n.split(b"/") if x]
        if segs[:len(ns_segs)] == ns_segs and len(n) > len(best):
            best = n
    return best


class ConfineStream(Stream):
    name = "confine"
    driver = "confine"
    harness = {"name": "c12vault", "module": "root", "pkg": "./internal/vault",
               "files": {"internal/vault/zz_verif_common_test.go": "wb/vault/zz_verif_common_test.go",
                         "internal/vault/zz_verif_c12_test.go": "wb/vault/zz_verif_c12_test.go",
                         "internal/zzverif/vh/vh.go": "vh/vh.go"}}
    testname = "TestVerifC12Confine"
    rule = ("real Core on the recording physical layer; per case one of three namespace trees created through sys/namespaces "
            "(n1,n2,n1/c | n1,n1/c,sn(own shamir seal),sn/c | n1,n10,n1/n1,n2 | t,t/t,t/t/t | n1,out(own seal),out/in(own seal),out/in/x,out/y with random seal/unseal(own shares) of out and out/in in all orders), the same backend type mounted at the same path in "
            "every namespace plus nested paths, per namespace 1-2 policy tokens and a root-policy token, half the cores with "
            "UnsafeRelativePaths; 140 (220 thorough) requests per case: every token against every namespace addressed through "
            "path / header / context / mixes / hostile headers, mounts incl. non-existent and look-alike paths, traversal in the "
            "request path and in the backend-interpreted storage key, cubbyhole read/write/list/delete incl. other tokens' ids in "
            "the path; the sealable namespace is sealed and unsealed mid-case; compared: outcome class, values read, names listed "
            "and the exact mount-storage keys touched (mount / namespace / token ordinals); non-trivial = request reached a backend")

    def nontrivial(self, op, impl):
        return op.startswith("req") and impl.startswith("ok")

    def case_predicate(self, ops, impls):
        bad = []
        nss = [b""]          # namespace paths by ordinal
        sealable = {}
        sealed = {}
        toks = {}            # ord -> (ns path, kind)
        written = {}         # (target, key) -> writer ord   (cubbyhole: target includes owner)
        mount_ns = {}        # mount ordinal -> namespace path it currently lives in
        for op, impl in zip(ops, impls):
            f = op.split("\t")
            core = impl.split("!VIOL:", 1)[0]
            if core == "panic":
                bad.append({"what": "panic handling " + op, "signature": "confine-panic"})
                continue
            if f[0] == "ns":
                nss.append(unhex(f[1])); sealable[unhex(f[1])] = f[2] == "1"; sealed[unhex(f[1])] = f[2] == "1"
            elif f[0] == "sealns" and core == "ok":
                # a seal covers every own-seal namespace at or below; an unseal (own shares) only the namespace itself
                if f[2] == "1":
                    for x in nss:
                        if sealable.get(x) and x.startswith(unhex(f[1])):
                            sealed[x] = True
                else:
                    sealed[unhex(f[1])] = False
            elif f[0] == "token":
                toks[f[1]] = (unhex(f[2]), f[3])
            elif f[0] == "mount":
                mount_ns[f[3]] = unhex(f[1])
            elif f[0] == "remount" and core == "ok":
                mount_ns[f[1]] = unhex(f[2])
            if f[0] != "req":
                continue
            tok, ctx, hdr, path, opn = f[1], f[2], unhex(f[3]), unhex(f[4]), f[5]
            tns = toks[tok][0]
            cls, touches = core.split("|", 1)
            touches = [] if touches == "-" else touches.split(",")
            # resolved namespace, independently of the Go code and of the Lean model: the deepest namespace along the
            # cleaned (path.Clean) segments of ctx ++ header ++ path
            full = (b"" if ctx in ("none", "-") else unhex(ctx)) + (b"" if hdr == b"root/" and ctx in ("none", "-") else hdr) + path
            rns = resolve_ns(nss, sealable, sealed, full)
            def is_sealed(n):
                # some namespace at or above n has an own seal whose shares were not supplied since it was last covered by a seal
                return any(sealable.get(x) and sealed.get(x) and n.startswith(x) for x in nss)
            reached = cls.startswith("ok")
            for t in touches:
                tgt, rest = t.split(":", 1)
                kind, key = rest.split("=", 1)
                if tgt.startswith("X"):
                    bad.append({"what": "request touched storage of an unexpected mount: " + t, "signature": "request-touched-foreign-mount"})
                    continue
                if tgt.startswith("C"):
                    owner, ckey = key.split(":", 1)
                    if owner != tok:
                        bad.append({"what": "request with token %s touched cubbyhole storage keyed by %s (%s)" % (tok, owner, t),
                                    "signature": "cubbyhole-key-not-token-bound"})
                    if nss[int(tgt[1:])] != rns:
                        bad.append({"what": "cubbyhole of namespace %r touched by a request into %r" % (nss[int(tgt[1:])], rns),
                                    "signature": "request-touched-foreign-mount"})
                    if has_dot_segment(unhex(ckey)):
                        bad.append({"what": "cubbyhole storage key with '.'/'..' segment: " + t, "signature": "mount-key-dot-segment"})
                else:
                    if has_dot_segment(unhex(key)):
                        bad.append({"what": "mount storage key with '.'/'..' segment: " + t, "signature": "mount-key-dot-segment"})
                if is_sealed(rns):
                    bad.append({"what": "storage of sealed namespace %r touched: %s" % (rns, t), "signature": "sealed-namespace-touched"})
            if is_sealed(rns) and rns != b"" and (reached or touches):
                bad.append({"what": "request into sealed namespace %r was served: %s" % (rns, core), "signature": "sealed-namespace-served"})
            # a token authorises only in its own namespace and below: the namespace whose mount served the request
            # (and, when its prefix was consumed from the request, the resolved namespace) descends from the token's
            for t in touches:
                tgt = t.split(":", 1)[0]
                sns = nss[int(tgt[1:])] if tgt.startswith("C") else mount_ns.get(tgt[1:])
                if sns is not None and is_sealed(sns):
                    bad.append({"what": "storage of a mount of namespace %r touched (%s) although a namespace at or above it is sealed "
                                        "(its own key shares were not supplied since the last seal covering it)" % (sns, t),
                                "signature": "sealed-namespace-storage-touched"})
                if reached and sns is not None and not sns.startswith(tns):
                    bad.append({"what": "token of namespace %r was served by a mount of namespace %r (%s)" % (tns, sns, core),
                                "signature": "token-authorised-outside-namespace"})
            confused = "#resolved-namespace-differs-from-serving-mount" in impl   # finding F13, reported under its own signature
            if reached and full.startswith(rns) and not rns.startswith(tns) and not confused:
                bad.append({"what": "token of namespace %r was authorised in namespace %r (%s)" % (tns, rns, core),
                            "signature": "token-authorised-outside-namespace"})
            if not reached:
                # refused requests may only have performed the pre-authorisation existence read in the token's own cubbyhole key space
                for t in touches:
                    if not (t.startswith("C") and ":get=" in t):
                        bad.append({"what": "refused request (%s) touched mount storage: %s" % (cls, t), "signature": "refused-request-touched-storage"})
            # values: a read returns only what was written under the same target and key (cubbyhole: by the same token)
            if reached and touches:
                t = touches[-1]
                tgt, rest = t.split(":", 1)
                kind, key = rest.split("=", 1)
                if kind == "put":
                    written[(tgt, key)] = tok
                elif kind == "delete":
                    written.pop((tgt, key), None)
                elif kind == "get" and cls.startswith("ok:1:"):
                    w = written.get((tgt, key))
                    got = unhex(cls[5:]).decode("utf8", "replace")
                    if w is None or got != "v" + w:
                        bad.append({"what": "read through %s returned %r, last written there: %r" % (t, got, w),
                                    "signature": "read-foreign-data"})
                    elif tgt.startswith("C") and w != tok:
                        bad.append({"what": "token %s read cubbyhole data written by token %s" % (tok, w), "signature": "cubbyhole-cross-token-read"})
        return bad


class C12(PropCheck):
    pid = "C12"
    lean_modules = ["C12", "C12Gen"]
    streams = [ViewStream(), RouterStream(), ConfineStream()]

    def pre(self, ctx):
        core.regenerate()
    level_text = ("Lean theorems over executable models of (1) the storage view: IsRelativePath transliterated with the Go index "
                  "arithmetic and proved equivalent to 'some /-separated segment is . or ..' (isRelativePath_spec), view_confined, "
                  "view_confined_segments, subview_compose, list_relative; (2) the router: route_longest_prefix, "
                  "request_storage_is_mount_view, mount_storage_disjoint (barrier-view prefixes of different mounts / namespaces "
                  "share no key); (3) the request path of the core: request_confined (every storage key a request touches lies in "
                  "the one mount routed for it, free of dot segments), cubbyhole_private (keyed by the requesting token's cubbyhole "
                  "id, over all request histories), policy_scoped_to_namespace + token_authorises_only_own_namespace_and_below, "
                  "sealed_namespace_unreachable, (3b) the policy store's cache key RE-TRANSLATED from policy_store.go on every run "
                  "(C12Gen: cache_key_injective, cached_policy_is_of_lookup_namespace — a policy name with '..' segments cannot select "
                  "another namespace's cached policy; cleaned_join_key_cex for the path.Join key of finding F48, repaired), and for nested separately sealed namespaces over all histories: seal_covers_descendant_barriers, unseal_parent_does_not_unseal_child, sealed_namespace_unreachable_histories. The full statement 'the serving mount belongs to the namespace the request was "
                  "resolved to' is kept as request_in_resolved_namespace_full and REFUTED by two witnesses (finding F13). All three "
                  "models are tied to the Go code by differential streams on every run and the confinement predicate is evaluated "
                  "directly on the physical keys the real core touches per request")
    level_note = ("trusted: Lean kernel; hand-written models and their differential ties (harness + driver + python predicates); "
                  "the confine model covers the harness's backend and the built-in cubbyhole, policies with uniform capabilities "
                  "(rule priority is C03's subject); group-policy application modes other than the "
                  "default, identity-derived policies and external plugin backends are not generated; remount is exercised through "
                  "Core.remountSecretsEngine, never for mounts holding keys with empty path segments (Core.moveStorage does not "
                  "terminate on those: reported, not a C12 matter)")
    technique = ("Lean 4 theorems (structural induction over byte lists, mount tables, request histories; decide for witnesses) + "
                 "differential correspondence (3 streams) + recorded physical keys per request on a real core")
    assumptions = ["mount and namespace UUIDs contain no '/' and are pairwise distinct; no mount table is called 'namespaces'",
                   "namespace paths are canonical with non-empty, non-dot, '+'-free segments (Namespace.Validate)",
                   "default group-policy application mode; no identity-derived policies; no external plugin backends",
                   "token_authorises_only_own_namespace_and_below: default configuration (no '.'/'..' segment in header ++ path) "
                   "and the resolved namespace's path was consumed from the request"]
    trusted_base = ["Lean 4.33.0 kernel",
                    "models Obao/Model/View.lean, Router.lean, Confine.lean tied to sdk/logical (path.go, storage_view.go), "
                    "internal/vault/routing/router.go and the real core (request_handling.go, namespace_store*.go, mount.go, "
                    "policy/*, logical_cubbyhole.go, token_store.go) by streams 'view', 'router', 'confine'",
                    "harness/bb/c12, harness/wb/routing, harness/wb/vault/zz_verif_c12_test.go (+ shared zz_verif_common_test.go), "
                    "props/C12.py predicates, lib/*.py"]


CHECK = C12()
