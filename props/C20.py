from lib import core
from lib.runner import PropCheck, Stream


class ShamirStream(Stream):
    name = "shamir"
    driver = "gf256"
    harness = {"name": "shamir", "module": "sdk", "pkg": "./helper/shamir",
               "files": {"helper/shamir/zz_verif_test.go": "wb/shamir/zz_verif_test.go",
                         "zzverif/vh/vh.go": "vh/vh.go"}}
    testname = "TestVerifC20"
    rule = ("mult/add/div over all 65536 pairs and inverse over all 256 elements (exhaustive); evaluate/"
            "interpolate on random polynomials; Split parameter lattice; Split with recorded crypto/rand "
            "replayed into the model, Combine on all subsets for n<=6 and random subsets above, plus malformed "
            "shares; non-trivial = result is not an error class; distinct = distinct op line")

    def predicate(self, op, impl):
        # property predicate on implementation outputs: a subset of >= threshold shares must give the secret back
        if "!secret=" in impl:
            return "Combine of at least threshold shares did not return the secret"
        if op.startswith("split\t") and impl not in ("panic",) and not impl.startswith("err"):
            # x-coordinates (the tag byte of every share Split returned) must be distinct and non-zero,
            # and every share is one byte longer than the secret
            f = op.split("\t")
            secret = b"" if f[1] == "-" else bytes.fromhex(f[1])
            shares = [bytes.fromhex(x) for x in impl.split(",") if x and x != "-"]
            tags = [sh[-1] for sh in shares if sh]
            if any(len(sh) != len(secret) + 1 for sh in shares):
                return {"what": "Split returned a share whose length is not len(secret)+1", "signature": "c20-share-shape"}
            if 0 in tags:
                return {"what": "Split used the x-coordinate 0 (that share is the secret itself)", "signature": "c20-x-zero"}
            if len(set(tags)) != len(tags):
                return {"what": "Split used an x-coordinate twice", "signature": "c20-x-duplicate"}
        if op.startswith("combine\t") and impl.startswith("ok:"):
            # "combining rejects duplicate, short or unequal-length shares": an accepted combination has >= 2 parts of
            # one length >= 2 with pairwise distinct x-coordinates (the last byte)
            parts = [bytes.fromhex(x) if x != "-" else b"" for x in op.split("\t")[1].split(",")] if len(op.split("\t")) > 1 and op.split("\t")[1] else []
            if len(parts) < 2:
                return {"what": "Combine accepted fewer than two parts", "signature": "c20-combine-accepts-malformed"}
            if any(len(q) != len(parts[0]) for q in parts):
                return {"what": "Combine accepted parts of unequal length (%s)" % ",".join(str(len(q)) for q in parts),
                        "signature": "c20-combine-accepts-malformed"}
            if len(parts[0]) < 2:
                return {"what": "Combine accepted parts shorter than two bytes", "signature": "c20-combine-accepts-malformed"}
            if len({q[-1] for q in parts}) != len(parts):
                return {"what": "Combine accepted two parts with the same x-coordinate", "signature": "c20-combine-accepts-malformed"}
        if impl == "panic" and not (op.startswith("div\t") and op.endswith("\t0")) and not (op.startswith("eval\t") and op.endswith("\t0")):
            return "panic outside the documented x=0 / divide-by-zero guards"
        return None


class ThresholdStream(Stream):
    name = "threshold"
    driver = "threshold"
    harness = {"name": "vault_c20", "module": "root", "pkg": "./internal/vault",
               "files": {"internal/vault/zz_verif_c20_test.go": "wb/vault_c20/zz_verif_c20_test.go",
                         "internal/zzverif/vh/vh.go": "vh/vh.go"}}
    testname = "TestVerifC20Threshold"
    rule = ("real initialized sealed cores with (shares, threshold) in {(1,1),(2,2),(3,2),(5,3)} (thorough: + (4,4),(7,4),"
            "(10,5),(20,2),(255,6)); per case a random sequence of submissions to SealManager.unsealFragment drawn "
            "from genuine shares, repeats, too short, too long, garbage of valid length, a genuine share with a "
            "changed y byte (same x tag), odd valid lengths; compared: outcome class, recovered key, "
            "len(unlockInformation.Parts); then a live Core.Unseal with threshold genuine shares and a duplicate; "
            "rotation paths on real unsealed cores (Shamir seal and the test auto-unseal seal with recovery keys): "
            "SealManager.InitRotation/UpdateRotation root-shamir/root-auto/recovery, legacy Core.RekeyInit/RekeyUpdate "
            "root-shamir/root-auto/recovery, Core.GenerateRootInit/Update shamir/auto; same alphabet of submissions plus "
            "all-genuine and all-forged cases; compared: outcome class (short/long/dup/pending/cerr/verify-fail/proceeds) "
            "and the recorded progress; predicate on the real outputs: proceeded => the attempt's parts contain >= "
            "threshold distinct genuine shares, refused => no stored/recovery/KEK key changed; "
            "non-trivial = the part is recorded or completes an attempt")

    def nontrivial(self, op, impl):
        return impl.startswith(("pending", "key", "cerr", "proceeds", "verify-fail"))

    # rotation ops carry the harness-evaluated property predicate as `!QUORUM:<what>#<signature>`; it is reported
    # per case so that the replay holds the whole submission sequence of the attempt, not only its last part
    def norm_impl(self, op, impl):
        return impl.split("!VIOL:", 1)[0].split("!QUORUM:", 1)[0]

    def case_predicate(self, ops, impls):
        out = []
        for o, a in zip(ops, impls):
            if "!QUORUM:" in a:
                what, _, sig = a.split("!QUORUM:", 1)[1].partition("#")
                out.append({"what": what, "signature": sig or None})
        return out


class C20(PropCheck):
    pid = "C20"
    lean_modules = ["C20", "C20Gen"]
    streams = [ShamirStream(), ThresholdStream()]

    def pre(self, ctx):
        core.regenerate()
    assumptions = [
        "crypto/rand output is uniform (the model takes the coefficients and the shuffled x-coordinates as inputs)",
        "constant-time behaviour is not modelled",
        "verification of a recovered key (seal.VerifyRecoveryKey; for a Shamir barrier: the recovered KEK must decrypt the "
        "stored root key, AES-GCM authentication) is modelled as equality with the key the current shares were dealt from",
        "rotation/rekey/generate-root parts are non-nil byte strings (the API handlers decode a non-empty hex/base64 string)",
    ]
    level_text = ("Lean theorems over a model of sdk/helper/shamir (GF(2^8) arithmetic, Horner evaluation, Lagrange "
                  "interpolation, Split with its randomness as an input, Combine) and of the unseal threshold accounting "
                  "(seal_manager.go unsealFragment/recordUnsealPart/getUnsealKey) and of rotation/rekey/generate-root (rotate.go "
                  "UpdateRotation/progressRotation, rekey.go, generate_root.go: accounting then verification of the recovered "
                  "key): the arithmetic is a field, Combine of any "
                  ">= t distinct shares returns the secret, t-1 shares are consistent with every secret (exactly one "
                  "coefficient table each), no key before threshold distinct parts, a rotation step proceeds iff the attempt's "
                  ">= threshold distinct parts combine to the current key and a part completing t-1 genuine shares to a "
                  "verified key is itself the genuine share for its x-coordinate; the models are tied to the Go code by "
                  "an exhaustive comparison of mult/add/div/inverse over all inputs, a differential stream for Split/Combine "
                  "with replayed randomness (plus an influence test: one coefficient byte changes exactly one share "
                  "column), a differential stream through a real sealed core, and a regenerated translation of "
                  "mult/inverse/add from the Go AST proved equal to the model (C20Gen), on every run")
    level_note = ("trusted: Lean kernel; the hand-written model and its differential tie (harness + driver); crypto/rand "
                  "uniformity; theorems proved so far are listed with their axioms in the evidence file")
    technique = "Lean 4 theorems (decide +kernel tables, induction, Mathlib Lagrange) + exhaustive/differential correspondence"
    trusted_base = [
        "Lean 4.33.0 kernel",
        "hand-written model Obao/Model/GF256.lean tied to sdk/helper/shamir by the exhaustive/differential stream 'shamir'",
        "hand-written model Obao/Model/Threshold.lean tied to SealManager.unsealFragment/UpdateRotation, Core.RekeyUpdate and Core.GenerateRootUpdate by the differential stream 'threshold'",
        "Go harnesses harness/wb/shamir, harness/wb/vault_c20 (overlaid, build tag verif) and lib/*.py diff",
        "Mathlib (Field, Polynomial, Lagrange.interpolate) as checked by the Lean kernel",
    ]


CHECK = C20()
