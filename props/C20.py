from lib import core
from lib.runner import PropCheck, Stream


class ShamirStream(Stream):
    name = "shamir"
    driver = "gf256"
    harness = {"name": "shamir", "module": "sdk", "pkg": "./helper/shamir",
               "files": {"helper/shamir/zz_verif_test.go": "wb/shamir/zz_verif_test.go",
                         "zzverif/vh/vh.go": "vh/vh.go"}}
    testname = "TestVerifC20"
    rule = ("mult/add/div over all 65536 pairs and inverse over all 256 elements (exhaustive); evaluate/"
            "interpolate on random polynomials; Split parameter lattice; Split with recorded crypto/rand "
            "replayed into the model, Combine on all subsets for n<=6 and random subsets above, plus malformed "
            "shares; non-trivial = result is not an error class; distinct = distinct op line")

    def predicate(self, op, impl):
        # property predicate on implementation outputs: a subset of >= threshold shares must give the secret back
        if "!secret=" in impl:
            return "Combine of at least threshold shares did not return the secret"
        if impl == "panic" and not (op.startswith("div\t") and op.endswith("\t0")) and not (op.startswith("eval\t") and op.endswith("\t0")):
            return "panic outside the documented x=0 / divide-by-zero guards"
        return None


class C20(PropCheck):
    pid = "C20"
    lean_modules = ["C20", "C20Gen"]

    def pre(self, ctx):
        core.regenerate()
    streams = [ShamirStream()]
    assumptions = [
        "crypto/rand output is uniform (the model takes the coefficients and the shuffled x-coordinates as inputs)",
        "constant-time behaviour is not modelled",
    ]
    level_text = ("Lean theorems over a model of sdk/helper/shamir (GF(2^8) arithmetic, Horner evaluation, Lagrange "
                  "interpolation, Split with its randomness as an input, Combine); the model is tied to the Go code by an "
                  "exhaustive comparison of mult/add/div/inverse over all inputs and a differential stream for Split/Combine "
                  "with replayed randomness on every run")
    level_note = ("trusted: Lean kernel; the hand-written model and its differential tie (harness + driver); crypto/rand "
                  "uniformity; theorems proved so far are listed with their axioms in the evidence file")
    technique = "Lean 4 theorems (decide +kernel tables, induction, Mathlib Lagrange) + exhaustive/differential correspondence"
    trusted_base = [
        "Lean 4.33.0 kernel",
        "hand-written model Obao/Model/GF256.lean tied to sdk/helper/shamir by the exhaustive/differential stream 'shamir'",
        "Go harness harness/wb/shamir (overlaid, build tag verif) and lib/*.py diff",
    ]


CHECK = C20()
