import binascii
from lib import core
from lib.runner import PropCheck, Stream

# ---------------------------------------------------------------------------------------------------------------
# Independent evaluation of the property on implementation outputs. Nothing here is shared with the Lean model:
# token liveness is known by construction of the history (which tokens were revoked / expired / used up / bound to
# which CIDR / belong to a disabled entity), and the policy decision is a direct evaluator of the documented policy
# semantics for the simple rule language the harness generates (exact paths, trailing-* prefixes, deny, sudo).

NEED = {"read": "read", "list": "list", "update": "update", "create": "update",  # no existence check => update
        "delete": "delete", "patch": "patch", "scan": "scan"}


def parse_rules(s):
    out = []
    for r in s.split(";"):
        p, c = r.split("=")
        caps = set(c.split("+"))
        if p.startswith("/"):
            p = p[1:]
        pre = p.endswith("*")
        if pre:
            p = p[:-1]
        out.append((p, pre, caps))
    return out


def merged(sel):
    caps = set()
    for _, _, c in sel:
        caps |= c
    return {"deny"} if "deny" in caps else caps


def policy_decision(rules, op, path):
    """(allowed, sudo) by the documented semantics: exact rule beats glob, longest glob wins, rules on the same path
    are unioned, deny wins over everything on that path, list may name the directory with or without the slash"""
    if op == "help":
        return True, False
    path = path.lstrip("/")
    listy = op in ("list", "scan")
    ex = [r for r in rules if not r[1] and r[0] == path]
    if not ex and listy and path.endswith("/"):
        ex = [r for r in rules if not r[1] and r[0] == path[:-1]]
    caps = None
    if ex:
        caps = merged(ex)
    else:
        for cand in [path] + ([path[:-1]] if listy and path.endswith("/") else []):
            pf = [r for r in rules if r[1] and cand.startswith(r[0])]
            if pf:
                n = max(len(r[0]) for r in pf)
                caps = merged([r for r in pf if len(r[0]) == n])
                break
    if caps is None:
        return False, False
    return NEED.get(op) in caps, "sudo" in caps


class AuthzStream(Stream):
    name = "authz"
    driver = "authz"
    harness = {"name": "vaultc02", "module": "root", "pkg": "./internal/vault",
               "files": {"internal/vault/zz_verif_common_test.go": "wb/vault/zz_verif_common_test.go",
                         "internal/vault/zz_verif_c02_test.go": "wb/vault/zz_verif_c02_test.go",
                         "internal/zzverif/vh/vh.go": "vh/vh.go"}}
    testname = "TestVerifC02"
    rule = ("one real Core per case with the recording backend at rec/ (and deep/er/); random histories of policy "
            "writes/deletes (exact and glob rules over the mounts, capability sets incl. deny and sudo), token creations "
            "(service, batch, CIDR-bound, entity-bound; num_uses 0-3), revocations, forced lease expiry, entity "
            "disable/enable, and requests: every token form (absent, malformed, mutated body/signature, revoked, expired, "
            "exhausted, batch, root, CIDR mismatch, disabled entity) x every operation x path forms (trailing/doubled "
            "slashes, ./.. segments, mount without slash, mount-boundary, unauth/ and root/ paths); each mutation is "
            "followed by a repeat of the previous request; non-trivial = the request reached a backend handler or was "
            "answered without error; distinct = distinct op line")

    def nontrivial(self, op, impl):
        if not op.startswith(("req\t", "reqns\t")):
            return False
        f = impl.split("|")
        return len(f) == 4 and (f[0] == "ok" or f[1] != "-")

    # `reqns` = a request path with a leading slash made inside a child namespace: not namespace-relative, the ACL and
    # the router refuse it in a different order than in the root namespace; both refusals are the same class here
    @staticmethod
    def _refusal(op, res):
        if op.startswith("reqns\t"):
            for c in ("denied|", "nopath|"):
                if res.startswith(c):
                    return "refused|" + res[len(c):]
        return res

    def norm_impl(self, op, impl):
        return self._refusal(op, impl.split("!VIOL:", 1)[0])

    def norm_model(self, op, model):
        return self._refusal(op, model)

    def case_predicate(self, ops, impls):
        mounts, pols, toks, disabled = [], {}, {"root": {"pols": ["root"], "n": 0, "kind": "root", "revoked": False,
                                                       "expired": False, "used": 0}}, set()
        fails = []
        for op, impl in zip(ops, impls):
            f = op.split("\t")
            k = f[0]
            if k == "mount":
                mounts.append(f[1])
            elif k == "pol-put":
                pols[f[1]] = parse_rules(f[2])
            elif k == "pol-del":
                pols.pop(f[1], None)
            elif k == "tok-new":
                toks[f[1]] = {"pols": f[2].split(","), "n": int(f[3]), "kind": f[4], "revoked": False, "expired": False,
                              "used": 0}
            elif k == "tok-revoke":
                toks[f[1]]["revoked"] = True
            elif k == "tok-expire":
                toks[f[1]]["expired"] = True
            elif k == "ent-disable":
                (disabled.add if f[2] == "1" else disabled.discard)(f[1])
            elif k in ("req", "reqns"):
                why = self.check_req(f, impl, mounts, pols, toks, disabled)
                if why:
                    fails.append({"what": why[0], "signature": why[1], "op": op, "impl": impl})
        return fails

    def check_req(self, f, impl, mounts, pols, toks, disabled):
        form, op, remote = f[1], f[2], f[4]
        path = "" if f[3] == "-" else binascii.unhexlify(f[3]).decode()
        r = impl.split("!VIOL:")[0].split("|")
        if len(r) != 4:
            return ("unparseable result %r" % impl, "c02:bad-result")
        cls, calls, mw, book = r
        granted = cls == "ok" or calls != "-"
        mount = None
        for m in mounts:
            if path.startswith(m) and (mount is None or len(m) > len(mount)):
                mount = m
        unauth = mount is not None and path.startswith(mount + "unauth/")
        rootp = mount is not None and path.startswith(mount + "root/")
        # token liveness, known from the history
        why_dead = None
        t = None
        if not form.startswith("valid:"):
            why_dead = "token-" + form.split(":")[0]
        else:
            t = toks[form[6:]]
            if t["revoked"]:
                why_dead = "token-revoked"
            elif t["expired"]:
                why_dead = "token-expired"
            elif t["n"] > 0 and t["used"] >= t["n"]:
                why_dead = "token-exhausted"
            elif t["kind"] == "cidr" and remote != "10.1.2.3":
                why_dead = "cidr-mismatch"
            elif t["kind"].startswith("ent:") and t["kind"][4:] in disabled:
                why_dead = "entity-disabled"
        # a use is consumed by every request that authenticates on an authenticated path (even when then denied);
        # requests rejected before the token is looked at, or from a non-matching address, do not authenticate
        if (t is not None and not unauth and cls not in ("relpath", "slashwrite", "internalop")
                and why_dead in (None, "entity-disabled")):
            t["used"] += 1
        if not granted:
            if mw != "-":
                return ("refused request wrote under a mount's storage: %s" % mw, "c02:refused-with-effect:" + cls)
            return None
        if unauth:
            return None
        if why_dead:
            return ("request granted (%s, handler %s) although %s" % (cls, calls, why_dead), "c02:granted:" + why_dead)
        if t["pols"] == ["root"]:
            return None
        rules = [r for p in t["pols"] for r in pols.get(p, [])]
        allowed, sudo = policy_decision(rules, op, path)
        if not allowed:
            return ("request granted (%s, handler %s) although no policy of the token allows %s on %s" % (cls, calls, op, path),
                    "c02:granted:policy-denies")
        if rootp and not sudo and op != "help":
            return ("root-protected path %s served without sudo" % path, "c02:granted:root-without-sudo")
        return None


def decl_match(pattern, remain):
    """what a declared special path means: trailing * = prefix, + = exactly one path segment (may be empty)"""
    import re
    pre = pattern.endswith("*")
    body = pattern[:-1] if pre else pattern
    rx = "".join("[^/]*" if ch == "+" else re.escape(ch) for ch in body) + (".*" if pre else "")
    return re.fullmatch(rx, remain, re.S) is not None


class SpecialStream(Stream):
    name = "special"
    driver = "special"
    harness = AuthzStream.harness
    testname = "TestVerifC02Special"
    rule = ("Router.RootPath / Router.LoginPath on a real Core for the special-path tables declared by sys, the token store, "
            "identity, cubbyhole and the recording backend, and for generated tables (exact, prefix, '+' wildcard entries, "
            "shadowing shapes) mounted through a backend whose PathsSpecial is generated; probes derived from every entry "
            "(entry, entry+x, entry/x, truncated, shifted, '+' instantiated) plus random; non-trivial = the path is special; "
            "distinct = distinct (table, remainder)")

    def nontrivial(self, op, impl):
        return impl == "true"

    def predicate(self, op, impl):
        f = op.split("\t")
        if f[0] != "probe":
            return None
        kind, origin = f[1], f[2]
        tbl = "" if f[3] == "-" else binascii.unhexlify(f[3]).decode()
        rem = "" if f[4] == "-" else binascii.unhexlify(f[4]).decode()
        paths = [p for p in tbl.split(",") if tbl != ""] if tbl != "" else []
        if kind == "root":
            # the root table is purely radix: '+' is a literal there
            declared = any((rem.startswith(p[:-1]) if p.endswith("*") else rem == p) for p in paths)
        else:
            declared = any(decl_match(p, rem) for p in paths)
        got = impl == "true"
        if origin.startswith("builtin"):
            if kind == "root" and declared and not got:
                return {"what": "%s: declared root-protected pattern does not protect %r (Router.RootPath answers false)" % (origin, rem),
                        "signature": "c02:rootpath-shadowed"}
            if kind == "unauth" and got and not declared:
                return {"what": "%s: %r is treated as unauthenticated without a declared pattern" % (origin, rem),
                        "signature": "c02:loginpath-unsound"}
        else:
            # generated tables: soundness must hold for every table (loginPath_impl_sound); completeness only when no
            # exact entry extends a prefix entry (rootPath_impl_eq_decl_partial)
            if got and not declared:
                return {"what": "generated table %r: %r matched without a declared pattern" % (tbl, rem),
                        "signature": "c02:special-unsound"}
            if kind == "root" and declared and not got:
                pres = [p[:-1] for p in paths if p.endswith("*")]
                exs = [p for p in paths if not p.endswith("*")]
                if not any(e.startswith(p) for p in pres for e in exs):
                    return {"what": "generated unshadowed table %r: %r not matched" % (tbl, rem), "signature": "c02:special-incomplete"}
        return None


class C02(PropCheck):
    pid = "C02"
    lean_modules = ["C02", "C11Gen"]

    def pre(self, ctx):
        core.regenerate()
    streams = [AuthzStream(), SpecialStream()]
    search_seeds = 3
    search_tier = "quick"      # 300 fresh cores per seed; the thorough tier is 4000
    level_text = ("Lean theorems over a stage-by-stage model of the request pipeline (relative-path rejection, token "
                  "population, login-path split, CheckToken = look-up/CIDR/entity/root-path/existence-check/ACL, UseToken, "
                  "routing with slash retry): route_requires_authz, ok_requires_authz, denied_no_effect, rootPath_requires_sudo, "
                  "fresh_policy_and_token_state, policy_delete_immediate, no_policy_no_access, revoked_never_again, "
                  "use_counted_even_when_denied, exhausted_never_again, route_slash_retry, rootPath_impl_eq_decl_partial + "
                  "rootPath_shadow_cex, loginPath_impl_sound; the model is tied to internal/vault on every run by a white-box "
                  "differential stream on real Cores (authz) and by probes of Router.RootPath/LoginPath on builtin and generated "
                  "special-path tables (special); the property is evaluated directly on every implementation response by an "
                  "independent evaluator")
    level_note = ("trusted: Lean kernel; hand-written pipeline model and its differential tie; policy language restricted to "
                  "exact/glob rules (full ACL semantics are C03), root namespace only (C12), HTTP layer, identity-group "
                  "policies, control groups, MFA, quotas and wrapping outside the model")
    technique = "Lean 4 theorems (case analysis over the stage pipeline, induction over histories) + white-box differential correspondence"
    assumptions = ["requests are atomic with respect to policy/token mutations (interleavings at request granularity)",
                   "root namespace only; no '+' segment wildcards, parameters or control groups in policies",
                   "recording backend declares unauth/* and root/* and has no existence check"]
    trusted_base = ["Lean 4.33.0 kernel",
                    "model Obao/Model/RequestAuthz.lean tied to internal/vault/request_handling.go, routing/router.go, "
                    "token_store.go, policy/acl.go by stream 'authz'",
                    "harness/wb/vault/zz_verif_c02_test.go + zz_verif_common_test.go, props/C02.py evaluator, lib/*.py"]


CHECK = C02()
