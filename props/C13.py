"""C13 — all storage backends and layers implement one key/value and listing contract.

Streams `kvlist-sdk` (inmem, transactional inmem, file; sdk module, black box) and `kvlist-raft` (raft FSM and a
single-node RaftBackend, plain and inside transactions; root module, white box) run generated operation sequences
through random stacks of layers.  The Lean driver stream `kvlist` executes the implementation-shaped models of
Obao/Model/Listing.lean; the predicate below evaluates the CONTRACT ITSELF (a sorted map, written independently
here in a dozen lines) on every implementation output of every case.
"""
import os
from lib.runner import PropCheck, Stream


def unhex(s):
    return b"" if s == "-" else bytes.fromhex(s)


def parse_list(s):
    body = s[2:]
    if body == "":
        return []
    return [unhex(x) for x in body.split(",")]


def children(keys, p):
    out = set()
    for k in keys:
        if k.startswith(p):
            t = k[len(p):]
            i = t.find(b"/")
            out.add(t if i < 0 else t[:i + 1])
    return sorted(out)


def list_page(keys, p, after, limit):
    cs = children(keys, p)
    if after != b"":
        cs = [c for c in cs if c > after]
    if limit > 0:
        cs = cs[:limit]
    return cs


def go_clean(path):
    """path.Clean, written after the Go source (lazybuf indices). The repaired raft code no longer calls filepath.Join;
    this stays only to recognise the inputs of the former findings F4/F9/F40 should they ever deviate again."""
    if path == b"":
        return b"."
    rooted = path[0] == 0x2f
    n = len(path)
    out = bytearray()
    r, dotdot = 0, 0
    if rooted:
        out += b"/"
        r, dotdot = 1, 1
    while r < n:
        if path[r] == 0x2f:
            r += 1
        elif path[r] == 0x2e and (r + 1 == n or path[r + 1] == 0x2f):
            r += 1
        elif path[r] == 0x2e and path[r + 1] == 0x2e and (r + 2 == n or path[r + 2] == 0x2f):
            r += 2
            if len(out) > dotdot:
                w = len(out) - 1
                while w > dotdot and out[w] != 0x2f:
                    w -= 1
                del out[w:]
            elif not rooted:
                if len(out) > 0:
                    out += b"/"
                out += b".."
                dotdot = len(out)
        else:
            if (rooted and len(out) != 1) or (not rooted and len(out) != 0):
                out += b"/"
            while r < n and path[r] != 0x2f:
                out.append(path[r])
                r += 1
    if len(out) == 0:
        return b"."
    return bytes(out)


def go_join(p, after):
    if p != b"":
        return go_clean(p + b"/" + after)
    if after != b"":
        return go_clean(after)
    return b""


def clean_stable(after):
    """no empty / '.' / '..' segments and no leading slash; one trailing slash is allowed (folder entries)"""
    segs = after.split(b"/")
    if segs and segs[-1] == b"" and len(segs) > 1:
        segs = segs[:-1]
    return all(s not in (b"", b".", b"..") for s in segs)


def dir_like(p):
    return p == b"" or p.endswith(b"/")


SIG_F4 = "F4:rafttxn-list-after-leaves-prefix"
SIG_F9 = "F9:raft-list-after-dotdot-inside-prefix"
SIG_F9B = "F9b:raft-list-join-nondir-prefix"
SIG_EMPTY = "rafttxn-list-pending-empty-child"


class KVStream(Stream):
    driver = "kvlist"
    testname = "TestVerifC13"

    def nontrivial(self, op, impl):
        return not impl.startswith("err") and impl != "bad-op" and not op.startswith("cfg")

    def classify_list(self, kind, in_txn, bp, after, exp=None, got=None):
        if kind == "raft" and in_txn and exp and exp[0] == b"" and got == exp[1:]:
            # only the empty child (a pending put of the key that equals the listed prefix) is missing
            return SIG_EMPTY
        if kind in ("fsm", "raft") and after != b"":
            # the known findings are exactly the inputs on which the cursor start is NOT safe (the side condition of
            # the _partial theorems: seek inside the prefix interval and seek <= prefix + after); a disagreement on a
            # safe input is a new violation and keeps the generic signature
            j = go_join(bp, after)
            txn_path = kind == "raft" and in_txn
            inside = j.startswith(bp)
            if txn_path and not inside:
                return SIG_F4
            seek = j if inside else bp
            if seek > bp + after:
                return SIG_F9 if dir_like(bp) else SIG_F9B
        return "list-differs-from-sorted-slice:" + kind + (":txn" if in_txn else "")

    def case_predicate(self, ops, impls):
        fails = []
        kind, P, logical_top = None, b"", False
        store, txn, txn_rw = {}, None, False

        def fail(i, what, sig):
            fails.append({"what": what, "signature": sig,
                          "input": {"ops": ops[max(0, i - 60):i + 1], "impl": impls[max(0, i - 60):i + 1],
                                    "failing_op": ops[i], "failing_impl": impls[i]}})

        for i, (op, impl) in enumerate(zip(ops, impls)):
            impl = impl.split("!VIOL:", 1)[0]
            f = op.split("\t")
            name = f[0]
            cur = txn if txn is not None else store
            if name == "cfg":
                kind = f[1]
                P = b""
                logical_top = False
                if f[2] != "-":
                    for l in f[2].split(","):
                        parts = l.split(":")
                        if parts[0] in ("pview", "lview", "bview"):
                            P += unhex(parts[1])
                        if parts[0] in ("lview", "bview"):
                            logical_top = True
                store, txn = {}, None
            elif name == "put":
                if impl == "ok":
                    cur[P + unhex(f[1])] = unhex(f[2])
            elif name == "del":
                if impl == "ok":
                    cur.pop(P + unhex(f[1]), None)
            elif name == "rawput":
                if impl == "ok":
                    store[unhex(f[1])] = unhex(f[2])
            elif name == "rawdel":
                if impl == "ok":
                    store.pop(unhex(f[1]), None)
            elif name == "get":
                if impl.startswith("err") or impl == "panic":
                    if impl == "panic":
                        fail(i, "panic in Get", "panic")
                    continue
                exp = cur.get(P + unhex(f[1]))
                got = None if impl == "nil" else unhex(impl[2:].split(";k:", 1)[0])
                if exp != got:
                    fail(i, "get does not return the last value put / nothing after delete: expected %r got %r" % (exp, got),
                         "get-differs-from-map:" + kind)
            elif name in ("list", "page"):
                if not impl.startswith("l:"):
                    if impl == "panic":
                        fail(i, "panic in List", "panic")
                    continue
                p = unhex(f[1])
                after = unhex(f[2]) if name == "page" else b""
                limit = int(f[3]) if name == "page" else -1
                got = parse_list(impl)
                exp = list_page(cur.keys(), P + p, after, limit)
                if got != exp:
                    sig = self.classify_list(kind, txn is not None, P + p, after, exp, got)
                    if kind == "raft" and txn is not None and (P + p) in cur.keys() and \
                            got == list_page([k for k in cur.keys() if k != P + p], P + p, after, limit):
                        # F41 under pagination: the listing is that of the store without the key that equals the listed
                        # prefix (its empty child name is missing, so the page is shifted by one)
                        sig = SIG_EMPTY
                    fail(i, "listing differs from the slice of the sorted children: prefix=%r after=%r limit=%d expected %r got %r"
                         % (P + p, after, limit, exp, got), sig)
            elif name == "begin":
                if impl == "ok":
                    txn = dict(store)
                    txn_rw = f[1] == "rw"
            elif name == "commit":
                if impl == "ok" and txn is not None and txn_rw:
                    store = txn
                txn = None
            elif name == "rollback":
                txn = None
            elif name in ("scan", "collect"):
                if not impl.startswith("l:"):
                    if impl in ("panic", "err:fuel"):
                        fail(i, "scan helper did not terminate normally: " + impl, "scan-" + impl)
                    continue
                got = sorted(parse_list(impl))
                exp = sorted(k[len(P):] for k in store if k.startswith(P))
                if got != exp:
                    sig = "scan-differs-from-keys-under-view:" + kind
                    # entries that filepath.Join rewrites when the scan passes them back as `after`: '.', '..', '/' —
                    # i.e. some key under the view has an empty, '.' or '..' segment (a final '/' only gives after="")
                    dotted = any(s in (b"", b".", b"..") for k in exp
                                 for s in (k[:-1] if k.endswith(b"/") else k).split(b"/"))
                    if kind == "raft" and logical_top and dotted:
                        sig = SIG_F4
                    elif kind in ("fsm", "raft") and not dir_like(P):
                        # the scan pages through a bottom prefix that is not slash-terminated (the view prefix is not)
                        sig = SIG_F9B
                    fail(i, "scan/collect did not visit exactly the keys under the view: missing %r extra %r"
                         % (sorted(set(exp) - set(got))[:5], sorted(set(got) - set(exp))[:5]), sig)
            elif name == "clear":
                if impl != "ok":
                    if impl == "panic":
                        fail(i, "panic in ClearView", "panic")
                    return fails  # partially cleared: the contract says nothing further about this case
                store = {k: v for k, v in store.items() if not k.startswith(P)}
            elif name == "dump":
                if not impl.startswith("d:"):
                    fail(i, "walking the bottom backend failed: " + impl, "dump-failed")
                    continue
                got = {}
                if impl[2:]:
                    for kv in impl[2:].split(","):
                        k, v = kv.split("=")
                        got[unhex(k)] = unhex(v)
                if got != store:
                    diff = sorted(set(got.items()) ^ set(store.items()))[:6]
                    fail(i, "bottom store differs from the map the operations define (a view exposed/affected a key outside "
                            "its prefix, or a write was lost): %r" % (diff,), "store-differs-from-map:" + kind)
        return fails


class KVSdk(KVStream):
    name = "kvlist-sdk"
    harness = {"name": "c13bb", "module": "sdk", "pkg": "./zzverif/c13",
               "files": {"zzverif/c13/c13_test.go": "bb/c13/c13_test.go",
                         "zzverif/c13core/core.go": "bb/c13/core/core.go",
                         "zzverif/vh/vh.go": "vh/vh.go"}}
    rule = ("generated cases on inmem (transactions off/on) and file backends under random stacks of "
            "cache/StorageEncoding/physical.View/logical.StorageView: key sets 0-40 over a segment pool engineered for "
            "order corner cases (- . / 0 a ~, 2/3-byte UTF-8, keys that are prefixes, trailing-slash keys, '.'/'..'/empty "
            "segments, NUL, invalid UTF-8, boundary lengths), ops put/get/del/list/page/begin/commit/rollback/scan/"
            "collect/clear/rawput/rawdel/dump; after in {existing, non-existent, '.', '..', with '/', with '..'}, limits "
            "-7..1000; non-trivial = non-error result; distinct = distinct op line")


class KVRaft(KVStream):
    name = "kvlist-raft"
    harness = {"name": "raftc13", "module": "root", "pkg": "./internal/physical/raft",
               "files": {"internal/physical/raft/zz_verif_c13_test.go": "wb/raft/zz_verif_c13_test.go",
                         "sdk/zzverif/c13core/core.go": "bb/c13/core/core.go",
                         "sdk/zzverif/vh/vh.go": "vh/vh.go"}}
    rule = ("same generator on a real raft FSM (bbolt) and a bootstrapped single-node RaftBackend, plain ListPage and "
            "ListPage inside read-only / read-write transactions with pending puts and deletes; F4/F9 inputs included")

    def env(self, tier, seed):
        e = {"VERIF_TIER": tier, "VERIF_SEED": seed}
        if os.path.isdir("/dev/shm"):
            e["TMPDIR"] = "/dev/shm"
        return e


class C13(PropCheck):
    pid = "C13"
    streams = [KVSdk(), KVRaft()]
    level_text = ("Lean theorems over implementation-shaped models (Obao/Model/Listing.lean) against a sorted-map specification "
                  "(Obao/Model/SortedKV.lean), all for every store / prefix / after / limit / operation sequence: "
                  "inmem_list_eq_spec, file_list_eq_spec, fsm_list_eq_spec, rafttxn_list_eq_spec (full: raft listPageInner and "
                  "RaftTransaction.ListPage seek to prefix+after since the repair of F4/F9/F40); rafttxn_list_pending_eq_spec_partial "
                  "(merge of pending puts/deletes = listing of the overlaid store, except a pending put of the key equal to the prefix: "
                  "F41, with rafttxn_pending_empty_child_cex); kv_refines_map, kv_keys_sorted, cache_coherent (arbitrary evictions), "
                  "view_confined, view_get_key_roundtrip, paged_concat_eq_full, scan_visits_exactly / scan_inmem_ / scan_raft_ "
                  "(termination + each key exactly once, page size >= 2). Models tied to the Go code by two differential streams over "
                  "random layer stacks on every run; the contract itself is evaluated on every implementation output")
    level_note = ("trusted: Lean kernel; hand-written models and their differential tie; go-radix / bbolt / sorted directory names "
                  "modelled as a strictly sorted key list; one theorem is _partial because the unchanged code violates the full "
                  "statement (F41, reproduced on every run, listed in known_findings.json); the predicates of the repaired findings "
                  "F4/F9/F40/F42 stay armed; file backend driven with admissible keys only; transaction commit logic is C08's subject")
    technique = "Lean 4 theorems (induction over sorted key lists, invariants) + differential correspondence on layer stacks"
    assumptions = ["go-radix WalkPrefix, bbolt cursors and sorted directory names enumerate keys in bytewise order",
                   "file backend driven only with keys it stores faithfully (DESIGN C13 'Admissible keys')",
                   "single-threaded histories (transaction conflicts are C08)"]
    trusted_base = ["Lean 4.33.0 kernel", "models Obao/Model/Listing.lean + spec Obao/Model/SortedKV.lean tied to the Go code by "
                    "streams kvlist-sdk and kvlist-raft", "harness/bb/c13, harness/wb/raft/zz_verif_c13_test.go, lib/*.py"]


CHECK = C13()
