import os
from lib.runner import PropCheck, Stream


# ---------------------------------------------------------------------------------------------------
# The property's own predicate, evaluated directly on the implementation's trace (independent of the Lean
# model): a sorted-map spec of the store, "serial execution at the commit point".
# ---------------------------------------------------------------------------------------------------

def unq(s):
    return "" if s == "-" else s


def children(store, prefix, after, limit):
    """the listing contract over a sorted map: distinct children of prefix, sorted, > after, first `limit`"""
    cs = set()
    for k in store:
        if k.startswith(prefix):
            rest = k[len(prefix):]
            i = rest.find("/")
            cs.add(rest if i < 0 else rest[:i + 1])
    out = sorted(c for c in cs if after == "" or c > after)
    if limit > 0:
        out = out[:limit]
    return out


def show_val(v):
    return "nil" if v is None else "v:" + v


def show_list(l):
    return "[" + ",".join(x if x != "" else "-" for x in l) + "]"


def parse_list(s):
    body = s[1:-1]
    return [unq(x) for x in body.split(",")] if body else []


class Tx:
    def __init__(self, tid, writable, snapshot):
        self.tid, self.writable = tid, writable
        self.snapshot = snapshot          # copy of the store when the transaction began
        self.ops = []                     # (fields, impl result) of every data operation that did not error
        self.finished = False
        self.own = {}                     # key -> value / None of the transaction's own successful writes
        self.under = None                 # verdict of the underlying commit while a cache commit window is open

    def wrote(self):
        return any(f[0] in ("put", "del") for f, _ in self.ops)


def serial_exec(store, ops):
    """re-run a transaction's operations against `store` (mutated); returns the list of stale observations"""
    stale = []
    owndel = set()     # keys the transaction itself had deleted (and not re-written) when the observation was made
    for f, impl in ops:
        op = f[0]
        if op == "get":
            exp = show_val(store.get(f[2]))
        elif op == "list":
            exp = show_list(children(store, unq(f[2]), "", -1))
        elif op == "listp":
            exp = show_list(children(store, unq(f[2]), unq(f[3]), int(f[4])))
        elif op == "put":
            store[f[2]] = f[3]
            owndel.discard(f[2])
            continue
        elif op == "del":
            store.pop(f[2], None)
            owndel.add(f[2])
            continue
        else:
            continue
        if exp != impl:
            stale.append({"op": f, "observed": impl, "at_commit": exp, "owndel": sorted(owndel)})
    return stale


def classify_one(s, tx, raft):
    """structural class of ONE stale observation of a committed transaction (matched against known findings).
    The F-signatures describe defects of the raft backend and are only ever produced for the raft stream."""
    f = s["op"]
    if not raft:
        return "stale-read-commit" if f[0] == "get" else "stale-list-commit"
    if f[0] == "get":
        # F23 shape: the only difference is absent vs present-with-empty-value
        if {s["observed"], s["at_commit"]} == {"nil", "v:-"}:
            return "F23:raft-verify-absent-equals-empty"
        return "stale-read-commit"
    obs = parse_list(s["observed"])
    now = parse_list(s["at_commit"])
    prefix = unq(f[2])
    after = unq(f[3]) if f[0] == "listp" else ""
    limit = int(f[4]) if f[0] == "listp" else -1
    snap = children(tx.snapshot, prefix, after, -1) if tx is not None else obs
    added = [x for x in now if x not in obs]
    gone = [x for x in obs if x not in now]
    # F27 shape: the only difference is the empty child name (a key equal to the listing prefix) appearing or
    # disappearing: strings.Join(items, "\n") hashes [] and [""] alike
    if set(added + gone) == {""}:
        return "F27:raft-list-hash-empty-vs-empty-child"
    # F25 shape: the listing prefix is non-empty and does not end in "/": hasModifiedListEntry looks for writes
    # under prefix+"/" only, so the fast path bypasses the verification whatever was written beside it
    if prefix != "" and not prefix.endswith("/"):
        return "F25:raft-list-verify-bypass-nonslash-prefix"
    # F8 shape: the verification record could not hold a look-ahead entry (the snapshot had no more entries than
    # the limit), the snapshot listing was not empty (an empty record is verified without a limit), and every
    # difference between the observed listing and the listing at the commit point lies strictly AFTER the last
    # entry the snapshot held under that (prefix, after): a key appended behind everything the record covers
    # (entries of the transaction's own writes may thereby be pushed out of a limited page)
    if snap and added and not (limit > 0 and len(snap) > limit) and all(x > snap[-1] for x in added + gone):
        return "F8:raft-list-phantom-append"
    # F24 shape: every entry that differs at the commit point (new, or gone) is a FOLDER in which the transaction
    # itself deleted a key: the verification re-lists STORAGE at folder granularity, where the folder is present
    # before and after, while the transaction's own view of the folder depends on WHICH keys are in it (its delete
    # hid the folder and a concurrent writer put another key into it; or the folder was visible through a key a
    # concurrent writer deleted while storage still holds the key the transaction deletes)
    owndel = s.get("owndel", [])
    # (a LIMITED page: when a folder leaves the page, the entries behind it move up into it — those are not differences
    # of their own; seen in the thorough sweep, seed 3: observed [a/], at the commit point [b/], limit 1)
    refill = [x for x in added if limit > 0 and obs and gone and x > max(obs)]
    diff = [x for x in added if x not in refill] + gone
    if diff and all(x.endswith("/") and any(k.startswith(prefix + x) for k in owndel) for x in diff):
        return "F24:raft-list-own-delete-hides-folder"
    return "stale-list-commit"


def classify_stale(stale, tx, raft):
    """group the stale observations of one committed transaction by structural class"""
    groups = {}
    for s in stale:
        groups.setdefault(classify_one(s, tx, raft), []).append(s)
    return groups


def check_case(ops, impls, sig_prefix="", raft=False):
    """serializability of one scheduler case; returns a list of failures"""
    fails = []
    store = {}
    txs = {}
    layer = "?"
    win_pre = None     # inside a commit window after the underlying commit: the store just before it
    rkey, rparked = None, None

    def fail(what, sig, **kw):
        d = {"what": what, "signature": sig_prefix + sig}
        d.update(kw)
        fails.append(d)

    for line, impl in zip(ops, impls):
        impl = impl.split("!VIOL:", 1)[0]
        f = line.split("\t")
        op = f[0]
        if op == "layer":
            layer = f[1]
            continue
        if op in ("note", "lag"):
            continue
        if impl == "panic" or impl == "err:other" or impl == "timeout":
            fail("operation %r ended in %s" % (f, impl), "unexpected-" + impl.replace(":", "-"))
            continue
        if op == "begin":
            txs[f[1]] = Tx(f[1], f[2] == "rw", dict(store))
            continue
        if op == "dump":
            exp = ",".join(show_val(store.get(k)) for k in f[1:])
            if exp != impl:
                fail("store differs from serial execution of the committed transactions and plain writes: "
                     "expected %s, got %s" % (exp, impl), "store-not-serial")
                # resynchronise so that one defect is reported once
                for k, v in zip(f[1:], impl.split(",")):
                    if v == "nil":
                        store.pop(k, None)
                    else:
                        store[k] = v[2:]
            continue
        if op in ("cstart", "stripes", "purge", "cwait"):
            # cstart: the commit window of the cache layer opens (see `cunder`, `hget`, `rstart`); stripes: lock stripe
            # of every key; purge: the parent cache was emptied; cwait: whether Commit had returned while a reader was
            # parked inside cache.Get (compared with the micro-step model only)
            continue
        if op in ("rstart", "rrelease"):
            # a concurrent plain reader in its own goroutine, parked by the hook right after the storage read
            kind, _, val = impl.partition(":")
            if op == "rstart":
                rkey, rparked = f[1], (val if kind == "parked" else None)
                if kind not in ("parked", "ret"):
                    fail("reader start ended in %s" % impl, "unexpected-" + impl.replace(":", "-"))
                    continue
            else:
                if kind != "ret":
                    fail("released reader ended in %s" % impl, "unexpected-" + impl.replace(":", "-"))
                    continue
                if rparked is not None and val != rparked:
                    fail("the parked reader returned %s, the storage read had returned %s" % (val, rparked), "reader-result-changed")
            ok_vals = {show_val(store.get(rkey))}
            if win_pre is not None:
                ok_vals.add(show_val(win_pre.get(rkey)))
            if val not in ok_vals:
                fail("reader inside the commit window got %s for %s, neither the pre- nor the post-commit value %r"
                     % (val, rkey, sorted(ok_vals)), "window-read-neither-old-nor-new")
            continue
        if op == "hget":
            # a concurrent plain reader inside a commit window. The commit call has been invoked and has not
            # returned: the read may be ordered before or after it, so it must return the value of the store just
            # before the underlying commit or just after it (before `cunder` the two coincide).
            ok_vals = {show_val(store.get(f[1]))}
            if win_pre is not None:
                ok_vals.add(show_val(win_pre.get(f[1])))
            if impl not in ok_vals:
                fail("reader inside the commit window got %s for %s, neither the pre- nor the post-commit value %r"
                     % (impl, f[1], sorted(ok_vals)), "window-read-neither-old-nor-new")
            continue
        if op == "cohere":
            if "!" in impl:
                bad = [k for k, c in zip(f[1:], impl) if c == "!"]
                fail("at quiescence a read through the cache differs from the backend below for %r" % bad,
                     "cache-stale-after-commit")
            continue
        if op == "commit" and f[1] in txs and getattr(txs[f[1]], "under", None) is not None:
            # closing line of a commit window: the underlying commit was judged at `cunder`
            tx = txs[f[1]]
            if impl != tx.under:
                fail("cache-level commit returned %s, the underlying commit %s" % (impl, tx.under), "cache-commit-verdict-differs")
            tx.under = None
            win_pre = None
            continue
        if op in ("commit", "rollback", "cunder"):
            tx = txs.get(f[1])
            if tx is None:
                continue
            if op == "cunder":
                # the underlying commit inside a commit window: this is the commit point
                tx.under = impl
                win_pre = dict(store)
                op = "commit"
            if tx.finished:
                if not impl.startswith("err:"):
                    fail("%s of a finished transaction succeeded" % op, "finished-accepts-" + op)
                continue
            tx.finished = True
            if op == "rollback":
                if impl != "ok":
                    fail("rollback returned %s" % impl, "rollback-error")
                continue
            if impl == "ok":
                if tx.wrote():
                    stale = serial_exec(store, tx.ops)
                    for sig, group in sorted(classify_stale(stale, tx, raft).items()):
                        fail("transaction %s committed although %d of its observations had changed at commit time: %r"
                             % (tx.tid, len(group), group[:3]), sig, stale=group[:5])
                else:
                    # no effect: serialises at its snapshot (begin) point
                    stale = serial_exec(dict(tx.snapshot), tx.ops)
                    if stale:
                        fail("write-free transaction %s observed something no single store state explains: %r"
                             % (tx.tid, stale[:3]), "inconsistent-snapshot")
            elif impl == "err:conflict":
                pass   # store must stay unchanged: checked by the dump that follows and by later plain reads
            else:
                fail("commit failed with %s, not with a commit-conflict error" % impl, "commit-error-class")
            continue
        # data operations
        who = f[1]
        if who == "p":
            if op == "put":
                if impl == "ok":
                    store[f[2]] = f[3]
                else:
                    fail("plain put failed: %s" % impl, "plain-write-error")
            elif op == "del":
                if impl == "ok":
                    store.pop(f[2], None)
                else:
                    fail("plain delete failed: %s" % impl, "plain-write-error")
            else:
                stale = serial_exec(dict(store), [(f, impl)])
                if stale:
                    fail("plain read does not see the committed state: %r" % stale, "plain-read-not-current")
            continue
        tx = txs.get(who)
        if tx is None:
            continue
        if tx.finished:
            if not impl.startswith("err:"):
                if op == "get" and layer in ("cache", "view"):
                    # only explained by the cache layer when the key was read or written through this handle before
                    touched = any(g[0] in ("get", "put") and g[2] == f[2] for g, _ in tx.ops)
                    sig = "F22:cache-finished-txn-get-hit" if touched else "finished-accepts-get-uncached"
                else:
                    sig = "finished-accepts-" + op
                fail("finished transaction %s accepted %s (layer %s)" % (who, op, layer), sig)
            continue
        if op in ("put", "del") and not tx.writable:
            if not impl.startswith("err:"):
                fail("read-only transaction %s accepted a write" % who, "readonly-accepts-write")
            continue
        if impl.startswith("err:"):
            fail("open transaction %s: %s returned %s" % (who, op, impl), "open-txn-op-error")
            continue
        # reads reflect the transaction's own earlier writes
        if op == "get" and f[2] in tx.own:
            if impl != show_val(tx.own[f[2]]):
                fail("transaction %s does not read its own write of %s: got %s" % (who, f[2], impl), "own-write-not-read")
        if op == "list":
            got = parse_list(impl)
            p = unq(f[2])
            for k, v in tx.own.items():
                if not k.startswith(p):
                    continue
                rest = k[len(p):]
                i = rest.find("/")
                c = rest if i < 0 else rest[:i + 1]
                if v is not None and c not in got:
                    sig = "own-write-not-listed"
                    if raft and c == "":
                        # the key IS the listing prefix (empty child): RaftTransaction.ListPage merges an update only
                        # when it sorts after the last key so far, and "" never does
                        sig = "F26:raft-txn-list-omits-own-write-equal-to-prefix"
                    fail("transaction %s does not list its own write of %s under %r" % (who, k, p), sig)
                if v is None and i < 0 and c in got:
                    fail("transaction %s still lists %s which it deleted" % (who, k), "own-delete-listed")
        if op == "put":
            tx.own[f[2]] = f[3]
        elif op == "del":
            tx.own[f[2]] = None
        tx.ops.append((f, impl))
    return fails


class TxnStream(Stream):
    def case_predicate(self, ops, impls):
        return check_case(ops, impls)

    def predicate(self, op, impl):
        if op.startswith("cohere\t") and "!" in impl:
            return {"what": "cache coherent at quiescence fails: " + op.replace("\t", " ") + " => " + impl,
                    "signature": "cache-stale-after-commit"}
        return Stream.predicate(self, op, impl)

    def nontrivial(self, op, impl):
        return op.split("\t", 1)[0] not in ("layer", "dump", "cstart", "stripes", "purge") and impl not in ("bad-op",)


class InmemTxn(TxnStream):
    name = "txn-inmem"
    driver = "txn-inmem"
    harness = {"name": "c08bb", "module": "sdk", "pkg": "./zzverif/c08",
               "files": {"zzverif/c08/c08_test.go": "bb/c08/c08_test.go", "zzverif/vh/vh.go": "vh/vh.go"}}
    testname = "TestVerifC08Inmem"
    rule = ("scheduler harness (one goroutine, explicit interleaving) over inmem.NewInmem bare / behind physical.NewCache / "
            "behind cache+LogicalStorage+StorageView: 3-6 keys of a 2-level namespace, 1-4 concurrently open transactions "
            "(15% read-only) plus plain readers/writers, op mix get/put/delete/list/listPage(after in children, missing, '.', "
            "'..'; limit in -1,0,1,2,3,10), random interleaving and commit order, use-after-finish and writes on read-only "
            "transactions; the parent store is dumped after every commit/rollback; behind the cache half of the commits run as "
            "a COMMIT WINDOW: a hook wrapper between inmem and the cache calls back at the start of the underlying Commit and "
            "right after it returned, where 0-3 concurrent plain cache.Get (70% keys of the write set) run; after such a "
            "commit every key is read through the cache and directly from the backend (cohere); the driver replays the "
            "observed hook-point reads on the micro-step model; up to 150 (thorough 4000) commits run as a LOCK window: a plain "
            "cache.Get in its own goroutine is parked by the hook below the cache right after its storage read (inside cache.Get, "
            "holding the stripe read lock) while another goroutine runs Commit; the observed order rstart/cunder/cwait(blocked "
            "after a quiet period | returned)/rrelease/commit is replayed on the lock-granular model; non-trivial = every line except layer/dump/cstart; "
            "distinct = distinct op line")


class BarrierTxn(TxnStream):
    name = "txn-barrier"
    driver = "txn-inmem"
    harness = {"name": "c08barrier", "module": "root", "pkg": "./internal/zzverif/c08b",
               "files": {"internal/zzverif/c08b/c08_test.go": "bb/c08/c08_test.go",
                         "internal/zzverif/c08b/barrier_layer_test.go": "bb/c08/barrier_layer_test.go",
                         "sdk/zzverif/vh/vh.go": "vh/vh.go"}}
    testname = "TestVerifC08Barrier"
    rule = ("the txn-inmem scheduler harness (same generator: 1-4 concurrently open transactions, plain readers/writers, "
            "get/put/delete/list/listPage, random interleaving and commit order, use-after-finish, read-only transactions, "
            "parent store dumped after every commit/rollback) over the REAL encrypting barrier (TransactionalAESGCMBarrier, "
            "initialised and unsealed) on inmem's transactional backend — compared with the same transaction model "
            "(the barrier is transparent); non-trivial / distinct as txn-inmem")

    def env(self, tier, seed):
        e = {"VERIF_TIER": tier, "VERIF_SEED": seed}
        if "VERIF_C08_CASES" not in os.environ:
            e["VERIF_C08_CASES"] = "1200" if tier != "thorough" else "60000"
        return e


class RaftTxn(TxnStream):
    name = "txn-raft"
    driver = "txn-raft"
    harness = {"name": "c08raft", "module": "root", "pkg": "./internal/physical/raft",
               "files": {"internal/physical/raft/zz_verif_c08_test.go": "wb/raft/zz_verif_c08_test.go",
                         "internal/zzverif/vh/vh.go": "vh/vh.go"}}
    testname = "TestVerifC08Raft"
    rule = ("same scheduler over a real single-node RaftBackend (bbolt FSM, on-disk raft log, real apply path with the "
            "fast-path tracker): 1-4 open transactions plus plain writers, get/put/delete/list/listPage with prefixes with "
            "and (20%) without trailing slash, `after` from entries, missing names and values with empty/dot segments "
            "('.', '..', './', '//', 'a//', 'a/../b', ...), limits -1,0,1,2,3,10; every 25th case is the directed "
            "phantom scenario (list without reaching a limit, concurrent append, commit); two directed lag scenarios "
            "(FSM parked behind raft's applied index with SetFSMApplyCallback while a transaction begins)")

    def case_predicate(self, ops, impls):
        fails = check_case(ops, impls, raft=True)
        lag = any(o.startswith("lag\t") for o in ops)
        for f in fails:
            if lag and f.get("signature") == "stale-read-commit":
                f["signature"] = "F7:raft-lagging-fsm-stale-commit"
        return fails


class C08(PropCheck):
    pid = "C08"
    streams = [InmemTxn(), BarrierTxn(), RaftTxn()]
    level_text = ("Lean theorems. inmem (model InmemTxn = copy + log + replay at commit, spec SerialTxn = serial execution at "
                  "the commit point over a sorted map): inmem_commit_iff_serial, inmem_abort_restores, inmem_commit_unwritten, "
                  "inmem_serializable (induction over every schedule), txn_sees_snapshot_plus_own_writes, txn_result_is_logged, "
                  "reads_own_writes, readonly_refuses_writes, finished_refuses_use - all full. cache layer (model CacheTxn): "
                  "cache_layer_transparent full (parent and per-transaction caches coherent with the layer below after every "
                  "schedule); cache_commit_window_coherent full at LOCK granularity (reader Get = acquire stripe read lock, LRU lookup, "
                  "backend read, lru.Add, release; eviction = acquire stripe write lock - blocked while a reader holds it -, "
                  "remove, release; every stripe assignment, any number of readers, every interleaving, any number of windows "
                  "in any schedule), cache_commit_window_quiescent, cache_commit_lockfree_cex (model variant without the "
                  "eviction lock leaves a stale entry), cache_commit_window_coherent_atomic_reader, cache_commit_window_refines_atomic, "
                  "cache_commit_reversed_order_cex (model variant evict-then-commit leaves a stale entry); cache_finished_get_cex (F22). raft client-side verification records and single-node commit (model "
                  "RaftTxn): raft_verify_sound (read records cover every touched key and pin its content hash), "
                  "raft_commit_reads_current (every committed writer's reads are current, through the fast-path bypass, FSM not "
                  "lagging), raft_verify_sound_partial + raft_verify_absent_empty_cex (F23), raft_list_verify_cex (F8), "
                  "raft_list_verify_sound_partial (look-ahead / empty records), raft_list_verify_sound_fixed (the repaired rule). "
                  "Models tied to the Go code by two scheduler streams on every run (inmem bare/cache/view; a real single-node "
                  "RaftBackend); serializability at the commit point evaluated directly on every implementation trace")
    level_note = ("trusted: Lean kernel; hand-written models and their differential tie; storage-operation granularity (one goroutine "
                  "schedules whole storage calls); SHA-384 idealised as injective on {key}content; the raft apply side (tracker "
                  "clearing, batches, lag, restart: F1/F7/F10) is C09's model - here the tracker is assumed complete and F7 is "
                  "reproduced by a directed scenario only; listing with `after` values that filepath.Join rewrites is C13's; "
                  "barrier layer not driven; known findings F7, F8, F22-F27 are reported as KNOWN-FINDING when listed")
    technique = "Lean 4 theorems (induction over logs and schedules, system invariants, refinement to a serial spec) + differential correspondence"
    assumptions = ["each storage call is atomic at this layer (the harness schedules whole calls)",
                   "values are non-nil byte strings (reflect.DeepEqual in inmem Commit distinguishes nil from empty: a transaction "
                   "that read a nil-valued entry and writes can never commit - liveness only)",
                   "ASCII keys (Lean String order = Go byte order)",
                   "LRU caches modelled as unbounded maps (no eviction on the key spaces used)",
                   "raft: single node, FSM keeps up with raft (tracker complete)"]
    trusted_base = ["Lean 4.33.0 kernel",
                    "models Obao/Model/{SerialTxn,InmemTxn,CacheTxn}.lean tied to sdk/physical/inmem, sdk/physical/cache.go, "
                    "sdk/logical/{logical_storage,storage_view}.go by stream 'txn-inmem'",
                    "model Obao/Model/RaftTxn.lean tied to internal/physical/raft/{transaction,fsm,raft}.go by stream 'txn-raft'",
                    "harness/bb/c08, harness/wb/raft/zz_verif_c08_test.go, props/C08.py (serial-spec predicate), lib/*.py"]


CHECK = C08()
