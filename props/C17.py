from lib.runner import PropCheck, Stream

BB_FILES = {"zzverif/c17/c17_test.go": "bb/c17/c17_test.go",
            "zzverif/c17core/core.go": "bb/c17core/core.go",
            "zzverif/c17core/faultstore.go": "bb/c17core/faultstore.go",
            "zzverif/vh/vh.go": "vh/vh.go"}


class TransitStream(Stream):
    """histories over the key ring; every op line is answered by the model from the state since `reset`"""
    driver = "transit"

    def nontrivial(self, op, impl):
        return impl.startswith("ok") or impl in ("true", "false")


class KeysutilBB(TransitStream):
    name = "keysutil"
    harness = {"name": "c17bb", "module": "sdk", "pkg": "./zzverif/c17", "files": BB_FILES}
    testname = "TestVerifC17"
    rule = ("random histories (new / rotate / config of min_decryption_version, min_encryption_version, deletion_allowed, "
            "exportable, allow_plaintext_backup / trim / backup / restore / delete) interleaved with encrypt, decrypt, rewrap, "
            "sign, verify, hmac, hmac-verify on keysutil.Policy + LockManager (cache on and off) over InmemStorage, for "
            "aes128-gcm96, aes256-gcm96, chacha20-poly1305, xchacha20-poly1305 (plain, derived, convergent), ed25519 (plain, "
            "derived), ecdsa-p256, hmac; version arguments drawn around latest / min versions; every artifact replaced by "
            "its first-occurrence ordinal; decrypt/verify inputs mutated (version prefix rewrites v0, zero padding, sign, "
            "other versions, overflow, garbage; body flips first/middle/last, truncation, extension, short, bad base64; "
            "other context / associated data / message); non-trivial = the implementation returned a success value; "
            "distinct = distinct op line")


class KeysutilFaults(TransitStream):
    name = "keysutil-faults"
    harness = KeysutilBB.harness
    testname = "TestVerifC17Faults"
    rule = ("the same histories with a single failing storage Put (1st, 2nd or 3rd of the operation) planned before rotate / "
            "trim / config / backup / restore, LockManager cache on, over a transactional in-memory backend: rotate/config/trim "
            "and restore run inside a storage transaction as their handlers do (StartTxStorage), create/backup do not; "
            "restoreraw is the bare library call RestorePolicy outside a transaction (keysutil level only); the "
            "model carries the same fault plan through Persist's rollback")


class TransitWB(TransitStream):
    name = "transit-endpoints"
    harness = {"name": "c17wb", "module": "root", "pkg": "./internal/zzverif/c17t",
               "files": {"internal/zzverif/c17t/c17t_test.go": "wb/transit/c17t_test.go",
                         "sdk/zzverif/c17core/core.go": "bb/c17core/core.go",
                         "sdk/zzverif/c17core/faultstore.go": "bb/c17core/faultstore.go",
                         "sdk/zzverif/vh/vh.go": "vh/vh.go"}}
    testname = "TestVerifC17Endpoints"
    rule = ("the same generator driving the real transit backend through Backend.HandleRequest (keys/<name>, /config, /trim, "
            "/rotate, encrypt, decrypt, rewrap, sign, verify, hmac, verify/<hmac>, backup, restore, delete), plus batch_input "
            "requests to encrypt / decrypt / rewrap with 1-5 items mixing key_version, context, associated_data, version "
            "and body rewrites per item, items with errors, and the with/without-associated-data neighbour pattern; the "
            "model answers a batch as the per-item map of the single requests (or the whole-request refusal), the direct "
            "predicate is applied to every item")


class TransitWBFaults(TransitStream):
    name = "transit-endpoints-faults"
    harness = TransitWB.harness
    testname = "TestVerifC17EndpointFaults"
    rule = ("endpoint histories with a single failing storage Put planned before keys/<name>/rotate, /trim, /config, "
            "backup/<name>, restore/<name> (cache on); starts with the directed histories of the repaired findings F38 (trim) and F39 (restore) and of a failed, retried rotation")


class C17(PropCheck):
    pid = "C17"
    streams = [KeysutilBB(), KeysutilFaults(), TransitWB(), TransitWBFaults()]
    level_text = ("Lean theorems over an executable model of the transit key ring (keysutil.Policy Persist/handleArchiving with "
                  "its archive index arithmetic, Rotate, EncryptWithFactory, DecryptWithFactory incl. strconv.Atoi of the "
                  "version prefix, Sign/Verify, HMACKey, backup/restore/delete and the config/trim/hmac/rewrap endpoint "
                  "guards) with symbolic AEAD/signature/HMAC terms, all quantified over every fault-free operation history of "
                  "any length: archive_invariant, no_panic, roundtrip, rewrap_roundtrip, binds_inputs, "
                  "encrypt_respects_min_enc, old_versions_until_min_raised (iff, along any later ring-keeping history), "
                  "convergent_deterministic, sign_verify_sound/iff, hmac_verify_sound/iff, atoi_itoa, batch_is_pointwise with "
                  "batch_decrypt_binds and batch_roundtrip (batch_input requests are the per-item map of the single request); "
                  "old_versions_under_faults extends it to histories with failing storage Puts inside any endpoint operation "
                  "incl. failing restores (true since the repairs of F38 and F39, transactional storage assumed), "
                  "old_versions_under_faults_bare_restore_cex proves it false for the bare library call of RestorePolicy "
                  "outside a transaction (finding F39, library call only). The model is tied to the Go code by differential history streams at the keysutil level and "
                  "through the real endpoints (with and without injected Put faults) on every run, and the property "
                  "predicate is evaluated directly on every implementation output")
    level_note = ("trusted: Lean kernel; symbolic (Dolev-Yao) cryptography: AEAD open / signature verify / HMAC compare succeed "
                  "exactly for the recorded key, context, associated data, message and unmodified body; hand-written model and "
                  "its differential tie; RSA, ecdsa-p384/521, managed/external keys, imported keys, legacy convergent versions "
                  "1-2, custom version templates and JWS marshaling are outside the streams; context is bound only for derived "
                  "keys (non-derived keys ignore it by design); v0 is the documented alias of v1 for ciphertexts")
    technique = ("Lean 4 theorems (invariant over all operation histories, case analysis of the transliterated checks) + "
                 "differential correspondence on generated histories + direct predicate on implementation outputs")
    assumptions = [
        "cryptographic primitives are ideal: AES-GCM / ChaCha20-Poly1305 open, Ed25519 / ECDSA verify and HMAC compare succeed "
        "only for the exact key, nonce, associated data, message and tag produced at sealing time; HKDF derivation is "
        "injective in (key, context)",
        "fault-free storage for the property theorems; old_versions_under_faults instead assumes a transactional storage "
        "backend (the writes of a failed rotate/config/trim/restore request are rolled back by StartTxStorage)",
        "key names, version template and KDF mode are the defaults of LockManager-created policies",
    ]
    trusted_base = ["Lean 4.33.0 kernel",
                    "model Obao/Model/Transit.lean tied to sdk/helper/keysutil and internal/builtin/logical/transit by streams "
                    "'keysutil', 'keysutil-faults', 'transit-endpoints', 'transit-endpoints-faults'",
                    "harness/bb/c17, harness/bb/c17core, harness/wb/transit + lib/*.py"]


CHECK = C17()
