from lib.runner import PropCheck, Stream

DATA_OPS = {"put", "get", "del", "list", "probe", "rotate", "rotroot", "setroot", "mkupgrade", "chkupgrade", "rmupgrade",
            "keyinfo", "verifyroot", "reloadroot"}


class SealKeys(Stream):
    name = "sealkeys"
    driver = "sealkeys"
    harness = {"name": "c10barrier", "module": "root", "pkg": "./internal/vault/barrier",
               "files": {"internal/vault/barrier/zz_verif_c10_test.go": "wb/barrier/zz_verif_c10_test.go",
                         "internal/zzverif/vh/vh.go": "vh/vh.go"}}
    testname = "TestVerifC10Barrier"
    timeout = 1500
    rule = ("seeded histories of init / put / get / list / delete / rotate / rotate-root-key / set-root-key / seal / "
            "unseal(correct | wrong | truncated | over-long key) / reload-keyring / reload-root-key / create- / check- / "
            "destroy-upgrade / verify-root / key-info / bookkeeping tick (CheckBarrierAutoRotate: persist, no-op, over-limit, faulted) / SetRotationConfig on an active barrier and on a standby barrier over the same "
            "store (root and namespace metaPrefix); `dump` compares the whole in-memory and physical key hierarchy "
            "(which named key opens which record, established by an independent GCM open); after put / rotate / "
            "rotate-root every crash prefix of the operation's physical writes is replayed on a fresh barrier with "
            "every root key the operator holds; non-trivial = not an error class; distinct = distinct op line")

    def predicate(self, op, impl):
        return Stream.predicate(self, op, impl)

    def case_predicate(self, ops, impls):
        """P1 — sealed serves nothing: tracked from the op lines alone (no model): after `x seal` and until an
        `x unseal k` that returns ok, every data / key operation on x must return the sealed error."""
        out = []
        sealed = {"a": True, "b": True}
        for o, r in zip(ops, impls):
            f = o.split("\t")
            if len(f) < 2 or f[0] not in ("a", "b"):
                continue
            who, name = f[0], f[1]
            r0 = r.split("!VIOL:", 1)[0]
            if name == "seal" and r0.startswith("ok"):
                sealed[who] = True
            elif name == "unseal":
                if r0 == "ok":
                    sealed[who] = False
            elif name in DATA_OPS and sealed[who]:
                if r0 not in ("err:sealed", "err:ns-sealed"):
                    out.append({"what": "sealed barrier served `%s` with result %s" % (" ".join(f[1:]), r0),
                                "signature": "sealed-barrier-served:" + name})
        return out

    def nontrivial(self, op, impl):
        return not impl.startswith("err") and impl not in ("bad-op", "nil", "panic")


class SealCore(Stream):
    name = "sealcore"
    driver = "sealcore"
    harness = {"name": "c10core", "module": "root", "pkg": "./internal/vault",
               "files": {"internal/vault/zz_verif_common_test.go": "wb/vault/zz_verif_common_test.go",
                         "internal/vault/zz_verif_c10_test.go": "wb/vault/zz_verif_c10_test.go",
                         "internal/vault/zz_verif_c10h_test.go": "wb/vault/zz_verif_c10h_test.go",
                         "internal/zzverif/vh/vh.go": "vh/vh.go"}}
    testname = "TestVerifC10Core"
    timeout = 900
    rule = ("real Core with the default Shamir seal (3 shares, threshold 3) or, every fourth case, the test auto-unseal (stored-key) seal: seeded histories of put / delete / bookkeeping tick / key "
            "rotation / rekey(shares, threshold) through RekeyInit+RekeyUpdate, through RekeyInit+RekeyUpdate+RekeyVerify (verification required) and through SealManager.InitRotation+UpdateRotation / keyless root-key rotation / seal / "
            "unseal with the previous or the current share set; the physical layer snapshots the store after every "
            "write of the operation and for EVERY crash prefix a new core is started on the copy and unsealed with the "
            "old and with the new shares, every earlier entry is read back; `dump` compares the stored key hierarchy "
            "(stored keys, seal config, keyring, root-key entry, shamir-kek: which named key opens which record); "
            "non-trivial = not an error class; distinct = distinct op line")

    def case_predicate(self, ops, impls):
        """sealed core serves nothing: between `seal` and an `unseal` that reports `unsealed`, every barrier
        read / write / delete must return the sealed error (tracked from the op lines alone)"""
        out = []
        sealed = False
        for o, r in zip(ops, impls):
            f = o.split("\t")
            r0 = r.split("!VIOL:", 1)[0]
            if f[0] == "seal" and r0 == "ok":
                sealed = True
            elif f[0] == "unseal":
                if r0 == "unsealed":
                    sealed = False
            elif f[0] == "boot":
                sealed = False
            elif f[0] in ("put", "get", "del", "rotate") and sealed and r0 != "err:sealed":
                out.append({"what": "sealed core served `%s` with result %s" % (" ".join(f), r0),
                            "signature": "sealed-core-served:" + f[0]})
        return out

    def nontrivial(self, op, impl):
        return not impl.startswith("err") and impl not in ("bad-op", "nil", "insufficient")


class SealHA(Stream):
    name = "sealha"
    driver = "sealha"
    harness = {"name": "c10core", "module": "root", "pkg": "./internal/vault",
               "files": {"internal/vault/zz_verif_common_test.go": "wb/vault/zz_verif_common_test.go",
                         "internal/vault/zz_verif_c10_test.go": "wb/vault/zz_verif_c10_test.go",
                         "internal/vault/zz_verif_c10h_test.go": "wb/vault/zz_verif_c10h_test.go",
                         "internal/zzverif/vh/vh.go": "vh/vh.go"}}
    testname = "TestVerifC10HA"
    timeout = 900
    rule = ("a real two-node cluster (forwarding, invalidation, namespace key synchronisation) with a separately sealed "
            "namespace: the active node rotates (the namespace's root key; nothing; thorough: the namespace's / the root's "
            "encryption key) and steps down; on the node that takes over: the root and the namespace keyring against the former "
            "active node's, entries written before read back, and — after one more key rotation there — the namespace sealed "
            "and unsealed with its never-changed shares; expected answer from the two-barrier model (standby_follows_active); "
            "non-trivial = every line")

    def nontrivial(self, op, impl):
        return True


class C10(PropCheck):
    pid = "C10"
    streams = [SealKeys(), SealCore(), SealHA()]
    level_text = ("Lean theorems over a symbolic (Dolev-Yao) model of the key hierarchy seal key -> stored keys -> root key -> "
                  "keyring -> term keys -> records: sealed_serves_nothing + sealed_holds_no_keys, "
                  "unseal_wrong_key_stays_sealed, rotation_history_readable (consistency invariant preserved by every "
                  "operation, for every history of active-node and standby operations), new_writes_use_newest_term, "
                  "rotate_crash_safe and rotate_root_crash_safe (every crash prefix), standby_upgrade_converges, "
                  "core_history_recoverable, unseal_below_threshold_no_progress / unseal_wrong_shares_rejected; partial "
                  "where the unchanged tree violates the property: rekey_crash_cex + rekey_crash_safe_partial (F6), "
                  "rotroot_core_crash_cex + rotroot_core_crash_safe_partial (F45), rotate_root_crash_follow_cex + "
                  "rotate_root_crash_follow_partial (F46). The model is tied to internal/vault/barrier and internal/vault "
                  "by two differential streams on every run (op-by-op results, the whole stored key hierarchy with an "
                  "independent GCM open per record, every crash prefix replayed on a fresh barrier / a restarted core), "
                  "and the property predicates are evaluated directly on the real outputs")
    level_note = ("trusted: Lean kernel; symbolic cryptography (AES-GCM opens only under the same key and path; Shamir "
                  "combine below threshold gives an unrelated key - C20); hand-written model and its differential tie; "
                  "HA standby = second barrier object over the same store, performKeyUpgrades = CheckUpgrade*, "
                  "ReloadRootKey, ReloadKeyring on it; histories: the standby never persists a keyring (HA lock); crash = "
                  "loss of memory after a prefix of the physical writes of ONE operation (single storage faults are "
                  "compared with the model but are outside the theorems); KMS wrappers are replaced by the repo's test auto-unseal seal; per-namespace seals above the barrier are not "
                  "exercised at core level (the namespace barrier metaPrefix is, at barrier level)")
    technique = ("Lean 4 theorems (consistency invariant preserved by each of 17 barrier and 9 core operations, induction over "
                 "histories, case analysis over crash prefixes, decide for the negation witnesses) + differential "
                 "correspondence (white-box overlays in internal/vault/barrier and internal/vault)")
    assumptions = [
        "AES-GCM and the aead wrapper are ideal: a record opens only under the key and AAD (path) it was sealed with",
        "shamir.Combine of fewer shares than the split threshold yields a key unrelated to the secret (C20)",
        "only the active node persists keyrings (HA lock); a crash loses memory and keeps a prefix of one operation's writes",
        "the physical backend applies writes in program order, each atomically (inmem; no torn writes)",
    ]
    trusted_base = [
        "Lean 4.33.0 kernel",
        "model Obao/Model/SealKeys.lean tied to internal/vault/barrier/{aes_gcm,keyring}.go by stream 'sealkeys' and to "
        "internal/vault/{rekey,rotate,seal_manager,seal,core}.go by stream 'sealcore'",
        "Go harnesses harness/wb/barrier/zz_verif_c10_test.go, harness/wb/vault/zz_verif_c10_test.go (+ shared "
        "zz_verif_common_test.go, vh.go), lib/*.py",
    ]


CHECK = C10()
