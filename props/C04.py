from lib.runner import PropCheck, Stream

FILES = {"internal/vault/zz_verif_c04_test.go": "wb/vault/zz_verif_c04_test.go",
         "internal/vault/zz_verif_common_test.go": "wb/vault/zz_verif_common_test.go",
         "internal/zzverif/vh/vh.go": "vh/vh.go"}
HARNESS = {"name": "vaultc04", "module": "root", "pkg": "./internal/vault", "files": FILES}


class RevokeStream(Stream):
    """all four streams speak the protocol of driver stream `revoke`; the harness evaluates the property's
    predicate on the real core's answers and marks failures `!VIOL:<what>#<signature>` (default predicate)"""
    driver = "revoke"
    harness = HARNESS

    def predicate(self, op, impl):
        # verdicts are reported per case (with the whole history as the failing input), see case_predicate
        return None

    def case_predicate(self, ops, impls):
        out, seen = [], set()
        for o, a in zip(ops, impls):
            if "!C04V:" in a:
                r = a.split("!C04V:", 1)[1]
                what, sig = (r.rsplit("#", 1) + [None])[:2] if "#" in r else (r, None)
                if sig in seen:
                    continue
                seen.add(sig)
                out.append({"what": what, "signature": sig})
        return out

    def norm_impl(self, op, impl):
        return impl.split("!C04V:", 1)[0].split("!VIOL:", 1)[0]

    def nontrivial(self, op, impl):
        if op == "check":
            return False
        if op in ("probe", "state"):
            return True
        return impl.startswith("ok") or "|ok|" in impl or "|A=ok" in impl


class Seq(RevokeStream):
    name = "revoke-seq"
    testname = "TestVerifC04Seq"
    rule = ("random token forests (depth <= 4, fan-out <= 3, orphans) built through auth/token/create[-orphan], cubbyhole "
            "writes and leased reads with some tokens, tokens with caller-chosen ids (and re-creation of a revoked id, followed "
            "by cubbyhole reads that must find nothing), then 5-30 operations (create child, renew-self, cubbyhole write, "
            "leased read, revoke by token / self / accessor / lease id / revoke-orphan, requesters and targets sometimes "
            "already revoked); after EVERY operation every token is probed with lookup-self and the token store, lease "
            "store, token-lease index, cubbyhole keys and the tokensPendingDeletion map are listed; every request's own "
            "storage operations are compared with the model's micro-step trace; non-trivial = request succeeded or an "
            "observation line; distinct = distinct op line (ids are ordinals, listing order keys are the real salted ids)")


class Fault(RevokeStream):
    name = "revoke-fault"
    testname = "TestVerifC04Fault"
    rule = ("for a revocation (by token / self / accessor / lease id / orphan) of a small tree with cubbyhole data and "
            "leases: for EVERY storage operation k of the request, a fresh copy of the tree, fail operation k once, "
            "observe the error, retry the same request, probe and list as in revoke-seq; first case is the F2 witness shape")


class Crash(RevokeStream):
    name = "revoke-crash"
    testname = "TestVerifC04Crash"
    rule = ("one gated run of a revocation with a snapshot of the physical store after every write; for every write "
            "prefix k (all of them for the first case, a third of them for the others in the quick tier) a NEW core is "
            "started on the snapshot, every token probed and the stores listed, the revocation retried, probed again")


def collapse_repeats(tr):
    """remove immediate repetitions of a block of >= 2 storage operations (longest blocks first, to a fixed point)"""
    ops = tr.split(",")
    changed = True
    while changed:
        changed = False
        n = len(ops)
        for L in range(n // 2, 1, -1):
            i = 0
            while i + 2 * L <= len(ops):
                if ops[i:i + L] == ops[i + L:i + 2 * L]:
                    del ops[i + L:i + 2 * L]
                    changed = True
                else:
                    i += 1
    return ",".join(ops)


class Race(RevokeStream):
    name = "revoke-race"
    testname = "TestVerifC04Race"

    # The explicit revocation of a surviving child whose deletion marker is stuck (F35) goes through the lease: its
    # revocation job fails and is RETRIED after a randomised back-off (C05's subject). Whether the retry's storage
    # operations fall inside the window in which the harness collects the request's trace depends on the machine's load
    # (seen twice in a sweep under load: the attempt's block of operations twice). A repeated attempt is not a different
    # behaviour: immediate repetitions of a block of operations are collapsed on both sides before the traces are compared.
    def _norm(self, op, res):
        if not op.startswith("rev\t") or "|" not in res:
            return res
        head, tr = res.split("|", 1)
        parts = tr.split("|")
        parts[0] = collapse_repeats(parts[0])
        return head + "|" + "|".join(parts)

    def norm_impl(self, op, impl):
        return self._norm(op, RevokeStream.norm_impl(self, op, impl))

    def norm_model(self, op, model):
        return self._norm(op, model)
    rule = ("revoke(tree | accessor | lease id) of a parent or grandparent against a concurrent auth/token/create of a "
            "child, both goroutines parked before every storage operation; five directed schedules then seeded "
            "random schedules; the observed schedule is replayed on the micro-step model (trace validation), then probe, "
            "list, and an explicit revocation of a surviving child")


class C04(PropCheck):
    pid = "C04"
    streams = [Seq(), Fault(), Crash(), Race()]
    level_text = ("Lean theorems over a micro-step (storage-operation) model of lookupInternal / revokeInternal / "
                  "revokeTreeInternal / storeCommon+create / RevokeByToken / ClearView / the revoke handlers "
                  "(Obao/Model/Revoke.lean, both spellings of the tokensPendingDeletion key). FULL, all histories / forests / "
                  "budgets: revoke_cascade_seq (after a successful cascading revocation the target and every non-orphaned "
                  "descendant is dead and refused), destroy_clears_routed_key (create / router / destroyCubbyhole agree on the cubbyhole "
                  "prefix for every token kind), revoked_stays_revoked, revoke_orphan_seq, revoke_restart (marker and "
                  "completed revocations are final across every crash prefix + restart). PARTIAL: revoke_fault_retry_partial "
                  "(finality for every fault position; full cascade for every position that leaves the store unchanged, i.e. all but failures past a marker write), "
                  "revoke_vs_create_race_partial (every schedule in which the creator's storeCommon lookup follows the marker "
                  "write). CEX (decide +kernel, replayed on the real core by the streams): revoke_fault_retry_cex_pending (F37), "
                  "revoke_vs_create_race_cex (F3), race_survivor_not_revocable_cex (F35); after the repair 17ec2c3 the former "
                  "F2/F36 witnesses are theorems revoke_fault_retry_marker_write_recovers / _entry_read_recovers. "
                  "The model is tied to internal/vault by four differential streams with storage-operation trace validation "
                  "on every run, and the property's predicate is evaluated on the real core's answers in all of them")
    level_note = ("trusted: Lean kernel; the hand-written model and its differential tie; expiration-worker timing is "
                  "abstracted to 'lease marked expired = queued' (settle step); root namespace only; locks not modelled "
                  "(a blocked goroutine shows as a trace mismatch); the unchanged tree violates the full fault/race "
                  "statements (F3, F35, F37; F2 and F36 were repaired by 17ec2c3 and their predicates stay armed), reproduced on the real core on every run; the partial "
                  "fault theorem does not cover retries from half-revoked states (stream revoke-fault only)")
    technique = ("Lean 4 theorems over a free-monad micro-step model (invariants, induction over histories/schedules, "
                 "decide +kernel witnesses) + differential correspondence with storage-operation trace validation")
    assumptions = ["root namespace only", "one storage fault per request; a retry runs fault-free",
                   "expiration workers eventually finish every lease marked expired (settle)",
                   "locks are not modelled: the gated harness reports any blocked thread as a trace mismatch"]
    trusted_base = ["Lean 4.33.0 kernel",
                    "model Obao/Model/Revoke.lean tied to internal/vault/{token_store,expiration}.go and sdk/logical/storage.go "
                    "by streams revoke-seq, revoke-fault, revoke-crash, revoke-race",
                    "harness/wb/vault/zz_verif_c04_test.go + zz_verif_common_test.go + lib/*.py"]


CHECK = C04()
