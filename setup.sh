#!/bin/sh
# Build the framework from files on disk only (offline): all Lean property modules + the native driver.
# Go harnesses are built by each check from /repo's current working tree (build overlay, tag `verif`).
set -e
cd "$(dirname "$0")"
# T-gen: regenerate lean/Obao/Gen from /repo (the checks do this again on every run)
python3 -c "import sys; sys.path.insert(0, '.'); from lib import core; core.regenerate()"
cd lean
mods=""
for f in Obao/Props/*.lean; do
  m=$(basename "$f" .lean)
  mods="$mods Obao.Props.$m"
done
lake build obaodriver $mods
echo "setup ok"
