#!/bin/sh
# Build the framework from files on disk only (offline): all Lean property modules + the native driver.
# Go harnesses are built by each check from /repo's current working tree (build overlay, tag `verif`).
set -e
cd "$(dirname "$0")/lean"
mods=""
for f in Obao/Props/*.lean; do
  m=$(basename "$f" .lean)
  mods="$mods Obao.Props.$m"
done
lake build obaodriver $mods
echo "setup ok"
