#!/bin/sh
# Build the framework from files on disk only (offline): regenerate the T-gen files from /repo, then build all
# Lean property modules + the native driver. Go harnesses are built by each check from /repo's current working
# tree (build overlay, tag `verif`).
set -e
cd "$(dirname "$0")"
# T-gen: every property's pre() step (tools/extract, C01's physical-writer extractor); the checks do this again on every run
python3 - <<'P'
import importlib, os, sys
sys.path.insert(0, ".")
for f in sorted(os.listdir("props")):
    if f.startswith("C") and f.endswith(".py"):
        pid = f[:-3]
        try:
            chk = importlib.import_module("props." + pid).CHECK
            chk.pre({"tier": "quick", "seed": "1", "pid": pid})
        except Exception as e:                      # a broken tie is reported by the check itself, not by setup
            print("setup: pre() of %s: %r" % (pid, e))
P
cd lean
mods=""
for f in Obao/Props/*.lean; do
  m=$(basename "$f" .lean)
  mods="$mods Obao.Props.$m"
done
lake build obaodriver $mods
echo "setup ok"
